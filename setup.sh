#!/bin/bash
# Offline setup: everything comes from /venv and the wheelhouse under /opt/veriftools/wheels.
# - hypothesis: already in /venv; installed from the wheelhouse only if the import fails.
# - jsonschema (independent validator for C16): installed into /verif/.deps (git-ignored).
HERE="$(cd "$(dirname "${BASH_SOURCE[0]}")" && pwd)"
cd "$HERE" || exit 2
PY="${VERIF_PYTHON:-/venv/bin/python}"
WH=/opt/veriftools/wheels
export PIP_NO_INDEX=1
mkdir -p .deps out evidence
if ! "$PY" -c "import hypothesis" 2>/dev/null; then
  "$PY" -m pip install -q --no-index --find-links "$WH" --target "$HERE/.deps" hypothesis || exit 2
fi
if ! PYTHONPATH="$HERE/.deps" "$PY" -c "import jsonschema" 2>/dev/null; then
  "$PY" -m pip install -q --no-index --find-links "$WH" --target "$HERE/.deps" jsonschema || exit 2
fi
PYTHONPATH="$HERE/.deps" "$PY" -c "import hypothesis, jsonschema; print('setup ok: hypothesis', hypothesis.__version__, 'jsonschema', jsonschema.__version__)" || exit 2
