#!/bin/bash
# Re-confirms every seeded change against the current /repo HEAD (patch applies, suite passes, demo fails with it and
# passes without) and re-runs the quick check against it; 8 at a time. Run after every fix: commit in /repo.
cd "$(dirname "$0")/.."
ls -d seeded/C*/*/ | while read d; do id=$(basename $(dirname $d)); n=$(basename $d); echo "$id $n"; done | \
  xargs -P 8 -L 1 sh -c 'python3 tools/register_seeded.py $0 $1 >/dev/null 2>&1'
python3 tools/seeded_status.py | grep -v "confirmed=yes detected=yes"
