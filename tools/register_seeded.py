#!/usr/bin/env python3
"""register_seeded.py <ID> <name> <patch.diff> <demo.py> [note.txt]
Copies a seeded property-breaking change into seeded/<ID>/<name>/, confirms it in a scratch worktree
(applies; pinned suite passes; demo fails with it and passes without) and runs the quick check of <ID>
against it (applied to /repo, undone straight afterwards). Writes meta.json with what was run and seen.
With --recheck only the quick check is re-run and meta.json updated; with only <ID> <name> the stored patch/demo are
confirmed again against the current /repo HEAD (note kept)."""
import json
import os
import shutil
import subprocess
import sys

HOME = os.path.dirname(os.path.dirname(os.path.abspath(__file__)))


def sh(cmd, **kw):
    return subprocess.run(cmd, shell=True, capture_output=True, text=True, **kw)


def main():
    args = [a for a in sys.argv[1:] if not a.startswith("--")]
    recheck = "--recheck" in sys.argv
    pid, name = args[0], args[1]
    d = os.path.join(HOME, "seeded", pid, name)
    os.makedirs(d, exist_ok=True)
    meta_p = os.path.join(d, "meta.json")
    meta = json.load(open(meta_p)) if os.path.exists(meta_p) else {}
    if not recheck:
        patch, demo = (args[2], args[3]) if len(args) > 3 else (os.path.join(d, "patch.diff"), os.path.join(d, "demo.py"))
        if os.path.abspath(patch) != os.path.join(d, "patch.diff"):
            shutil.copy(patch, os.path.join(d, "patch.diff"))
        if os.path.abspath(demo) != os.path.join(d, "demo.py"):
            shutil.copy(demo, os.path.join(d, "demo.py"))
        note = meta.get("needs_to_manifest", "")
        if len(args) > 4 and os.path.isfile(args[4]) and os.path.getsize(args[4]):
            note = open(args[4]).read().strip()
        r = sh(f"{HOME}/tools/confirm_seeded.sh {d}/patch.diff {d}/demo.py")
        out = r.stdout + r.stderr
        print(out.strip())
        meta = {
            "property": pid,
            "needs_to_manifest": note,
            "confirmed": {
                "repo_head": sh("git -C /repo rev-parse --short HEAD").stdout.strip(),
                "demo_exit_unchanged_tree": "demo_clean_exit=0" in out,
                "patch_applies": "patch_applies=yes" in out,
                "demo_fails_with_patch": ("demo_patched_exit=" in out and "demo_patched_exit=0" not in out),
                "suite_with_patch": [l for l in out.splitlines() if "passed" in l or "failed" in l][-1:] or None,
                "how": "tools/confirm_seeded.sh (scratch worktree of /repo HEAD, removed afterwards)",
            },
        }
    seeds = [1, 2]
    runs = []
    for s in seeds:
        r = sh(f"{HOME}/tools/try_seeded.sh {pid} {d}/patch.diff {s}")
        lines = r.stdout.strip().splitlines()
        rc = [l for l in lines if l.startswith("exit=")]
        clauses = sorted(set(l.strip().split("=", 1)[1] for l in lines if l.strip().startswith("clause=")))
        runs.append({"seed": s, "exit": rc[-1].split("=")[1] if rc else "?", "clauses": clauses})
        print(f"seed {s}: {runs[-1]}")
    meta["check_runs"] = {"cmd": f"git -C /repo apply patch.diff; VERIF_SEED=<s> ./check {pid} --tier quick; git -C /repo checkout -- .",
                          "runs": runs,
                          "detected": all(x["exit"] == "1" for x in runs)}
    json.dump(meta, open(meta_p, "w"), indent=1)


if __name__ == "__main__":
    main()
