#!/bin/bash
# run_all.sh [tier] [seed]  - runs every claimed check (in parallel) and prints one line per check.
TIER="${1:-quick}"; SEED="${2:-1}"
cd "$(dirname "$0")/.." || exit 2
mkdir -p out/runall
IDS=$(python3 -c "import json; print(' '.join(c['property_id'] for c in json.load(open('MANIFEST.json'))['checks']))")
if [ "$TIER" = quick ]; then
  for id in $IDS; do ( VERIF_SEED=$SEED ./check $id --tier quick > out/runall/$id.log 2>&1; echo "$id exit=$?" >> out/runall/_status ) & done
  rm -f out/runall/_status; wait
else
  rm -f out/runall/_status
  for id in $IDS; do VERIF_SEED=$SEED ./check $id --tier thorough > out/runall/$id.log 2>&1; echo "$id exit=$?" >> out/runall/_status; done
fi
sort out/runall/_status
for id in $IDS; do grep -E "^$id tier=" out/runall/$id.log | cut -c1-220; grep -E "^VIOLATION|HARNESS" out/runall/$id.log | head -3; done
