#!/usr/bin/env python3
"""Regenerates MANIFEST.json from the table below (keeps it schema-valid at all times).
A property is claimed only if its check module exists; the rest are listed under
not_applicable with the reason 'check not built yet' until they are."""
import json
import os

HOME = os.path.dirname(os.path.dirname(os.path.abspath(__file__)))

T = {
    # id: (module, category, technique, level text, level note, design ref)
    "C01": ("c01_constraints", "exploration",
            "exhaustive enumeration of a finite (type x bounds x inclusivity x allow_None x value x route) abstraction + Hypothesis random configs, oracle = hand-written spec predicate and route agreement",
            "Finite boundary abstraction enumerated completely on every run; random constraint configurations beyond it sampled. No claim outside the listed types and value pools.",
            "Trusted: vlib/specs.py (the spec predicate written from the docs). Path/File/Array/DataFrame types excluded.", "3/C01"),
    "C02": ("c02_rejected_noeffect", "exploration",
            "Hypothesis-generated link/set histories followed by one rejected attempt (second world: Dynamic parameters sharing number generators under a time-dependent clock); oracle = full observable snapshot equality + behavioural probe of links + empty event log",
            "Random histories up to the stated size; every rejected-attempt kind x route is labelled and counted.",
            "Trusted: snapshot covers values, watcher tables, refs; behavioural probe bumps every source.", "3/C02"),
    "C03": ("c03_dispatch", "exploration",
            "Hypothesis-generated watcher configurations and assignment programs (instances, class, subclass) with scripted acyclic callbacks; oracle = recursive reference dispatcher (exact trace equality) + clause predicates over the recorded trace",
            "Random programs up to 6 watchers / 10 ops / cascade depth 3.",
            "Trusted: the reference dispatcher transcribed from the property statement; equality on the stated value pool only.", "3/C03"),
    "C04": ("c04_batching", "exploration",
            "Hypothesis-generated trees of nested batch/update/discard/trigger contexts, plus side scenarios (update contexts over links, discard_events inside callbacks); oracle = reference batching model + trace predicates",
            "Random context trees up to depth 4 and 12 leaf operations.",
            "Trusted: the batching model derived from the statement; 'qualifying' read in the looser of its two readings.", "3/C04"),
    "C05": ("c05_faults", "fault_enumeration",
            "enumeration of fault placements (site kind x position x depth x surrounding batch) + Hypothesis-generated surrounding programs; oracle = differential probe against a freshly built twin object",
            "Every placement of one fault in the finite skeleton is enumerated on every run; multi-fault sequences and surrounding programs are sampled.",
            "Trusted: the twin construction (same values, equivalent watchers) and the fixed probe.", "3/C05"),
    "C06": ("c06_depends", "exploration",
            "Hypothesis-generated class hierarchies with dependent methods and set/update/batch programs; oracle = independent dependency resolver + exactly-once counting model, cross-checked with method_dependencies()",
            "Random hierarchies up to 4 classes x 4 methods and 8 operations.",
            "Trusted: the resolver written from the user guide.", "3/C06"),
    "C07": ("c07_subobject", "exploration",
            "Hypothesis-generated attach/replace/detach/leaf-set histories over depth-2 paths; oracle = value-reached-through-current-path vector model + watcher census of detached objects",
            "Random histories up to 12 operations over 3 Mid / 4 Leaf objects.",
            "Trusted: path-value model; counts are don't-care when a path flips between resolved and unresolved.", "3/C07"),
    "C08": ("c08_refs", "exploration",
            "Hypothesis-generated histories of source updates, relinks, overrides and update contexts over several linked parameters; oracle = closure model of each link + leftover-watcher census on sources",
            "Random histories up to 12 operations, all reference kinds incl. nested.",
            "Trusted: the link model; invalid source values are don't-care until valid again.", "3/C08"),
    "C09": ("c09_rx", "exploration",
            "Hypothesis-generated expression DAGs and update/read histories + complete operator-table sweep; oracle = differential against a plain-Python evaluator of the same DAG (value and type, or exception class)",
            "Operator table enumerated completely; random DAGs up to 10 nodes.",
            "Trusted: the mirror evaluator (plain Python operators).", "3/C09"),
    "C10": ("c10_async", "exploration",
            "complete enumeration of assignment kinds x completion permutations x plain-interleave points for N<=3 and of a linked-object scenario on a real asyncio loop with harness-owned futures + Hypothesis sampling of N=4 and of rx pipelines; oracle = latest-assignment-wins",
            "Schedule space for N<=3 enumerated completely; larger sampled.",
            "Trusted: the harness owns every awaitable; synchronous generators (run via to_thread) excluded.", "3/C10"),
    "C11": ("c11_inheritance", "exploration",
            "Hypothesis-generated hierarchies (chains, diamonds, skipped levels) with random slot subsets and type changes; oracle = independent per-slot MRO resolver + spec predicate for merged-default validity + validity invariant on every created class",
            "Random hierarchies up to 5 classes.",
            "Trusted: the resolver and vlib/specs.py.", "3/C11"),
    "C12": ("c12_leaks", "exploration",
            "Hypothesis-generated histories of instance creation, instance/class/subclass sets and in-place mutations; oracle = ownership model",
            "Random histories up to 15 operations.",
            "Trusted: ownership model; instance follow-up of later class-level metadata is don't-care.", "3/C12"),
    "C13": ("c13_namespace", "exploration",
            "Hypothesis-generated histories of namespace reads, class-level sets and add_parameter at every level; oracle = invariant static-MRO-lookup == .param view after every step",
            "Random histories up to 15 operations over a 4-class hierarchy.",
            "Trusted: inspect.getattr_static / __mro__ walk as the ground truth.", "3/C13"),
    "C14": ("c14_constant", "exploration",
            "Hypothesis-generated histories of constructor args, sets, class-level sets, instance-level constants and nested/failing edit_constant blocks, plus async-window and Time.time_type scenarios; oracle = identity-of-held-object model + flag invariants",
            "Random histories up to 12 operations.",
            "Trusted: held-object model.", "3/C14"),
    "C15": ("c15_json_roundtrip", "exploration",
            "Hypothesis-generated classes and valid states; oracle = serialize/deserialize round trip with exact-type structural equality + strict JSON parse",
            "Random classes from all serializable types; type-sensitive values labelled.",
            "Trusted: json module; domain restricted to JSON-native element values and naive datetimes.", "3/C15"),
    "C16": ("c16_schema", "exploration",
            "Hypothesis-generated constraint configurations and valid states + boundary probes; oracle = independent validator (jsonschema Draft 7), metaschema check, schema verdict == spec verdict on numeric probes",
            "Random configurations of all schema-supported types; numeric probes on and next to bounds.",
            "Trusted: jsonschema 4.x (wheelhouse) as the independent validator; vlib/specs.py.", "3/C16"),
    "C17": ("c17_copy_pickle", "exploration",
            "Hypothesis-generated pre-copy histories x deepcopy/pickle protocols x diverging post-copy histories; oracle = equality at copy time, independence afterwards, per-side invocation logs",
            "Random histories up to 8+8 operations.",
            "Trusted: per-side model; static importable model classes.", "3/C17"),
    "C18": ("c18_selector", "exploration",
            "Hypothesis-generated style-consistent mutation histories of Selector/ListSelector.objects interleaved with value assignments; oracle = ordered (name, object) list model compared after every operation",
            "Random histories up to 12 operations on list- and dict-declared Selector/ListSelector at class and instance level; no claim beyond these sizes.",
            "Trusted: the list model; objects unique with unique str(); style-consistent operations only.", "3/C18"),
    "C19": ("c19_time", "exploration",
            "Hypothesis-generated histories of time jumps (int/Fraction/float clocks), reads, inspections, time contexts and state push/pop; oracle = table keyed by (generator identity, time) -> first value seen, one value per time for history-dependent streams, clock untouched by reads",
            "Random histories up to 20 operations over several generators, seeds and instances.",
            "Trusted: first-seen table; Dynamic.time_dependent is switched on for the case and restored.", "3/C19"),
    "C20": ("c20_pprint", "exploration",
            "Hypothesis-generated literal-valued states of static classes with custom constructor signatures; oracle = eval(pprint/script_repr text) rebuilds a structurally equal object",
            "Random literal states nested up to depth 3.",
            "Trusted: eval in a namespace holding only the model module and param.", "3/C20"),
}


def main():
    checks = []
    na = []
    for pid, (mod, cat, tech, text, note, ref) in T.items():
        if os.path.exists(os.path.join(HOME, "checks", mod + ".py")):
            checks.append({
                "property_id": pid,
                "quick_cmd": f"./check {pid} --tier quick",
                "thorough_cmd": f"./check {pid} --tier thorough",
                "evidence_file": f"evidence/{pid}.json",
                "replay_cmd_template": f"./check {pid} --replay {{path}}",
                "engine": "pbt",
                "level_claimed": {"category": cat, "text": text, "design_ref": "DESIGN.md section 3 (row " + ref.split("/")[1] + ")"},
                "level_note": note,
                "technique": tech,
            })
        else:
            na.append({"property_id": pid,
                       "reason": "check not built yet (work in progress); the technique applies, see DESIGN.md section 3"})
    m = {
        "version": 1,
        "setup_cmd": "bash setup.sh",
        "hooks": {
            "guard": "HOLOVIZ_PARAM_VERIF",
            "enable": "no hooks: checks run /venv/bin/python with PYTHONPATH=/repo (the working tree) and observe through the public API",
            "baseline_off_cmd": "cd /repo && /venv/bin/python -m pytest -ra -q -p no:cacheprovider --timeout=900 --continue-on-collection-errors",
            "source_commits": [],
            "add_only": True,
        },
        "engines": [{
            "name": "pbt", "path": "vlib/runner.py", "serves_properties": [c["property_id"] for c in checks],
            "kind_free_text": "Hypothesis-driven generated-input search (program-as-data cases, seeded, shrunk to replay files) plus itertools enumeration of finite sub-spaces; 16-way sharding in the thorough tier",
        }],
        "checks": checks,
        "not_applicable": na,
        "notes": "Exit 0 held / 1 VIOLATION / 2 harness error. Known findings: known_findings.json. Replays: replays/<ID>/*.json are re-executed on every run.",
    }
    with open(os.path.join(HOME, "MANIFEST.json"), "w") as f:
        json.dump(m, f, indent=1)
    print(f"claimed: {[c['property_id'] for c in checks]}")


if __name__ == "__main__":
    main()
