#!/bin/bash
# try_seeded.sh <ID> <patch.diff> [seed]  - applies the patch to /repo, runs the quick check, undoes it.
ID="$1"; PATCH="$(realpath "$2")"; SEED="${3:-1}"
cd /repo && git diff --quiet || { echo "repo dirty"; exit 2; }
git apply "$PATCH" || { echo "patch does not apply"; exit 2; }
cd /verif && VERIF_SEED=$SEED ./check "$ID" --tier quick > out/try_$ID.log 2>&1; rc=$?
git -C /repo checkout -- .
grep -E "^VIOLATION|clause=" out/try_$ID.log | head -6
echo "exit=$rc"
