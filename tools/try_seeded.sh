#!/bin/bash
# try_seeded.sh <ID> <patch.diff> [seed]  - runs the quick check of <ID> against the change.
# The patch is applied to a scratch worktree of /repo HEAD (removed afterwards) and the check is pointed at it with
# VERIF_REPO, which is equivalent to `git -C /repo apply` + run + `git -C /repo checkout -- .` but cannot disturb a
# background run that is using /repo at the same time.
ID="$1"; PATCH="$(realpath "$2")"; SEED="${3:-1}"
WT=/tmp/wt/try.$$
git -C /repo worktree add --detach -q "$WT" HEAD || { echo "cannot create worktree"; exit 2; }
trap 'git -C /repo worktree remove --force "$WT" >/dev/null 2>&1' EXIT
git -C "$WT" apply "$PATCH" || { echo "patch does not apply"; exit 2; }
cd /verif && mkdir -p out && VERIF_REPO="$WT" VERIF_SEED=$SEED ./check "$ID" --tier quick > out/try_$ID.$$.log 2>&1; rc=$?
grep -E "^VIOLATION|clause=" out/try_$ID.$$.log | head -6
rm -f out/try_$ID.$$.log
echo "exit=$rc"
