#!/usr/bin/env python3
"""Maintenance helper (never used at check run time): append an entry to known_findings.json.
usage: kf.py ID PROPERTY STATUS CLAUSE REPLAY WHAT [COMMIT] [REGION]"""
import json, os, sys
HOME = os.path.dirname(os.path.dirname(os.path.abspath(__file__)))
p = os.path.join(HOME, "known_findings.json")
d = json.load(open(p))
a = sys.argv[1:]
e = {"id": a[0], "property": a[1], "status": a[2], "clause": a[3], "replay": a[4], "what": a[5]}
if len(a) > 6 and a[6]:
    e["commit"] = a[6]
if len(a) > 7 and a[7]:
    e["region"] = a[7]
d["findings"] = [x for x in d["findings"] if x["id"] != e["id"]] + [e]
json.dump(d, open(p, "w"), indent=1)
print("ok", e["id"])
