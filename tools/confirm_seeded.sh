#!/bin/bash
# confirm_seeded.sh <patch.diff> <demo.py>
# Confirms, in a scratch worktree of /repo HEAD (removed afterwards), that the patch applies,
# the pinned suite passes with it, and the demo fails with it and passes without it.
set -u
PATCH="$(realpath "$1")"; DEMO="$(realpath "$2")"
WT=/tmp/wt/confirm.$$
git -C /repo worktree add --detach -q "$WT" HEAD || exit 2
trap 'git -C /repo worktree remove --force "$WT" >/dev/null 2>&1' EXIT
cd "$WT"
PYTHONPATH="$WT:/verif/.deps" /venv/bin/python "$DEMO" >/dev/null 2>&1; echo "demo_clean_exit=$?"
git apply "$PATCH" || { echo "patch_applies=no"; exit 1; }
echo "patch_applies=yes"
PYTHONPATH="$WT:/verif/.deps" /venv/bin/python "$DEMO" >/dev/null 2>&1; echo "demo_patched_exit=$?"
PYTHONPATH="$WT" /venv/bin/python -m pytest -q -p no:cacheprovider --color=no -n 8 --timeout=900 2>&1 | tail -1
