"""Maintenance helper: re-creates seeded/<ID>/patch.diff on the current /repo HEAD from a list of (file, old, new) edits
read from stdin (a Python literal).  Needs a scratch worktree: git -C /repo worktree add --detach /tmp/wt/port HEAD
(remove it afterwards).  usage: port_seeded.py C05/r2m1 < edits.py"""
import subprocess, sys
sid = sys.argv[1]
edits = eval(sys.stdin.read())
WT = '/tmp/wt/port'
subprocess.run(['git', '-C', WT, 'reset', '-q', '--hard'], check=True)
for f, old, new in edits:
    p = f'{WT}/{f}'
    s = open(p).read()
    assert s.count(old) == 1, (sid, old[:80], s.count(old))
    open(p, 'w').write(s.replace(old, new))
d = subprocess.run(['git', '-C', WT, 'diff'], capture_output=True, text=True, check=True).stdout
open(f'/verif/seeded/{sid}/patch.diff', 'w').write(d)
print(sid, 'ported', len(d.splitlines()), 'lines')
