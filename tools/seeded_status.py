#!/usr/bin/env python3
"""Prints one line per seeded change: confirmed? detected? clauses."""
import glob, json, os
H = os.path.dirname(os.path.dirname(os.path.abspath(__file__)))
tot = det = 0
for m in sorted(glob.glob(os.path.join(H, "seeded", "C*", "*", "meta.json"))):
    d = json.load(open(m))
    c = d.get("confirmed", {})
    ok = c.get("demo_exit_unchanged_tree") and c.get("patch_applies") and c.get("demo_fails_with_patch") and c.get("suite_with_patch")
    r = d.get("check_runs", {})
    tot += 1
    det += bool(r.get("detected"))
    cl = sorted({x for run in r.get("runs", []) for x in run.get("clauses", [])})
    print(f"{os.path.relpath(os.path.dirname(m), H):28s} confirmed={'yes' if ok else 'NO '} detected={'yes' if r.get('detected') else 'NO '} {','.join(cl)[:90]}")
print(f"total={tot} detected={det}")
