#!/bin/bash
# Runs the pinned suite of the repository (guard off); prints the summary line only.
cd "${1:-/repo}" && /venv/bin/python -m pytest -q -p no:cacheprovider --color=no -n 8 --timeout=900 2>&1 | tail -2
