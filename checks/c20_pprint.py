"""C20 - `pprint`/`script_repr` output rebuilds an equal object."""
import math
import re

from hypothesis import strategies as st

import param
from param.parameterized import script_repr
from vlib import models_static as ms
from vlib.core import Result, dec

ID = "C20"
LEVEL = "exploration"
RULE = ("Hypothesis-generated states of importable classes (default **params signature; positional + keyword whose default "
        "differs from the Parameter default + **params; positional + keyword without **params; two positionals) with values "
        "from a recursive literal strategy (big/negative ints, floats incl. -0.0, extremes, inf, nan; strings with quotes, "
        "backslashes, newlines, unicode; bytes, bools, None; lists, tuples incl. empty and 1-tuples, dicts, sets, nested 3 "
        "deep; non-finite floats and tuples as dict keys; None held where the default is not None; nested Parameterized as value and inside lists), explicit or auto names, optionally after an object of a different class with the same qualified name was printed; oracle = eval(pprint()) and "
        "eval(script_repr()) rebuild an object of the same class with structurally equal parameter values (Python ==, container "
        "types exact, NaN==NaN, auto-generated names ignored). Non-trivial = some non-default value needs care to print (escape, "
        "negative/non-finite number, empty container, 1-tuple, set, nested Parameterized, explicit name, positional "
        "constructor parameter); distinct = case hash. Round 5: constructors with keyword-only arguments; the object printed while another thread (held by the harness inside a registered printer) is printing it too.")
ASSUMPTIONS = [
    "eval happens in a namespace holding param and the model classes (pprint) / after exec of the emitted import lines (script_repr)",
    "an explicit name of the exact auto-generated form <Class><5 digits> cannot be told from an auto name and is not generated",
]
SIZES = {"quick": 1500, "thorough": 12000}

_text = st.text(alphabet=st.sampled_from(list("ab'\"\\\n\t é€{}()[],= ")), max_size=6)
_leaf = st.one_of(
    st.integers(-5, 5).map(lambda v: ["i", v]),
    st.sampled_from([2 ** 70, -2 ** 65, 10 ** 20]).map(lambda v: ["i", v]),
    st.sampled_from(["1.5", "-2.25", "-0.0", "0.0", "1e308", "5e-324", "-1e-07", "inf", "-inf", "nan", "3.0"]).map(lambda v: ["f", v]),
    _text.map(lambda v: ["s", v]),
    st.binary(max_size=3).map(lambda v: ["y", v.hex()]),
    st.booleans().map(lambda v: ["b", v]),
    st.just(["n"]),
)
_key = st.one_of(st.integers(-2, 3).map(lambda v: ["i", v]), _text.map(lambda v: ["s", v]),
                 st.sampled_from(["1.5", "inf", "-inf", "-0.5"]).map(lambda v: ["f", v]),
                 st.lists(st.one_of(st.integers(-2, 3).map(lambda v: ["i", v]), st.sampled_from(["inf", "2.5"]).map(lambda v: ["f", v])),
                          max_size=2).map(lambda v: ["t", v]))
_hashable = st.one_of(st.integers(-3, 3).map(lambda v: ["i", v]), _text.map(lambda v: ["s", v]),
                      st.sampled_from(["1.5", "-0.5", "inf"]).map(lambda v: ["f", v]), st.just(["n"]))


def _sub():
    return st.fixed_dictionaries({}, optional={
        "x": st.one_of(st.integers(-3, 3).map(lambda v: ["i", v]), st.sampled_from(["-1.5", "2.0"]).map(lambda v: ["f", v])),
        "label": _text.map(lambda v: ["s", v]),
        "anyv": _leaf,
        "opt": st.sampled_from([["n"], ["n"], ["i", 1]]),
        "name": st.sampled_from(["subname", "it's", "Sub"]),
    }).map(lambda d: ["P", "Sub", d])


def _lit(with_sub=True):
    def ext(ch):
        return st.one_of(
            st.lists(ch, max_size=3).map(lambda v: ["l", v]),
            st.lists(ch, max_size=3).map(lambda v: ["t", v]),
            st.lists(ch, min_size=1, max_size=1).map(lambda v: ["t", v]),
            st.lists(st.tuples(_key, ch), max_size=3, unique_by=lambda kv: repr(kv[0])).map(lambda v: ["d", [list(x) for x in v]]),
            st.lists(_hashable, max_size=3, unique_by=repr).map(lambda v: ["S", v]),
        )
    base = st.one_of(_leaf, _sub()) if with_sub else _leaf
    return st.recursive(base, ext, max_leaves=6)


_num = st.one_of(st.integers(-4, 4).map(lambda v: ["i", v]),
                 st.sampled_from(["1.5", "-2.25", "-0.0", "1e308", "inf", "-inf", "nan", "0.1"]).map(lambda v: ["f", v]))
_int = st.one_of(st.integers(-4, 8), st.sampled_from([2 ** 70, -2 ** 65])).map(lambda v: ["i", v])
_str = _text.map(lambda v: ["s", v])
_names = st.sampled_from([None, None, "myname", "with 'quote'", "K7", "@cls1", "back\\slash", "@cls00017_left", "@cls000123", "@cls"])


@st.composite
def _case(draw):
    cls = draw(st.sampled_from(["Plain", "Plain", "Pos", "PosNoKw", "TwoPos", "KwOnly", "KwOnly2"]))
    state = {}
    if cls == "Plain":
        opt = {"num": _num, "i": _int, "s": _str, "b": st.booleans().map(lambda v: ["b", v]),
               "lst": st.lists(_lit(), max_size=3).map(lambda v: ["l", v]),
               "tup": st.lists(_lit(False), max_size=3).map(lambda v: ["t", v]),
               "dct": st.lists(st.tuples(_key, _lit()), max_size=3, unique_by=lambda kv: repr(kv[0])).map(
                   lambda v: ["d", [list(x) for x in v]]),
               "anyv": _lit(), "sub": _sub(), "subs": st.lists(_sub(), max_size=2).map(lambda v: ["l", v]),
               "prec": _num, "optn": st.sampled_from([["n"], ["n"], ["f", "2.5"]]), "opts": st.sampled_from([["n"], ["n"], ["s", "y"]]),
               # dicts one edit away from the (non-empty) default: a key renamed with value None, a key dropped, a value changed
               "cfgd": st.sampled_from([["d", [[["s", "fmt"], ["s", "png"]], [["s", "quality"], ["n"]]]],
                                        ["d", [[["s", "fmt"], ["s", "png"]]]],
                                        ["d", [[["s", "fmt"], ["s", "png"]], [["s", "dpi"], ["n"]]]],
                                        ["d", [[["s", "fmt"], ["n"]], [["s", "dpi"], ["i", 72]]]],
                                        ["d", [[["s", "a"], ["n"]], [["s", "b"], ["n"]]]],
                                        ["d", [[["s", "fmt"], ["s", "png"]], [["s", "dpi"], ["i", 72]], [["s", "x"], ["n"]]]]]),
               "cfgl": st.sampled_from([["l", [["d", [[["s", "j"], ["n"]]]], ["i", 2]]], ["l", [["d", [[["s", "k"], ["i", 1]]]], ["n"]]],
                                        ["l", [["d", [[["s", "k"], ["n"]]]], ["i", 2]]]])}
        state = draw(st.fixed_dictionaries({}, optional=opt))
    elif cls == "Pos":
        state = draw(st.fixed_dictionaries({"num": st.one_of(_num, _num, st.just(["n"]))}, optional={
            "s": st.one_of(_str, st.sampled_from([["s", "kwdefault"], ["s", "pdefault"], ["n"]])), "i": _int, "anyv": _lit()}))
    elif cls == "KwOnly":
        state = draw(st.fixed_dictionaries({"s": _str}, optional={"num": st.one_of(_num, st.just(["f", "1.0"])), "i": _int}))
    elif cls == "KwOnly2":
        state = draw(st.fixed_dictionaries({}, optional={"num": st.one_of(_num, st.just(["f", "1.0"])), "s": _str}))
    elif cls == "PosNoKw":
        state = draw(st.fixed_dictionaries({"num": _num}, optional={"i": st.one_of(_int, st.sampled_from([["i", 7], ["i", 2]]))}))
    else:
        state = draw(st.fixed_dictionaries({"anyv": _lit(), "s": _str}, optional={"i": st.one_of(_int, st.just(["i", 2]))}))
    name = draw(_names) if cls != "PosNoKw" else None
    # before the object is printed, an object of a *different* class with the same module and qualified name but another
    # constructor signature may be printed (class factories, redefinitions): printing one must not affect the other
    return {"cls": cls, "state": state, "name": name, "prelude": draw(st.sampled_from([None, None, "twin"])),
            # the object explicitly holds the values that are the class defaults now; afterwards (per-instance Parameter objects
            # exist) the class defaults are changed: the state to reproduce is the object's, not the new defaults
            "history": draw(st.sampled_from([None, None, None, "class_defaults_changed_afterwards"])),
            # the same object is being printed by another thread (held half-way by the harness) while it is printed here
            "overlap": draw(st.sampled_from([False, False, False, False, True]))}


def strategy(tier):
    return _case()


def _dec(e, marks):
    if e[0] == "P":
        kw = {k: (_dec(v, marks) if k != "name" else v) for k, v in e[2].items()}
        marks.add("nested_parameterized")
        return ms.C20_CLASSES[e[1]](**kw)
    if e[0] in ("l", "t", "d", "S") and any(isinstance(x, list) and x and x[0] == "P" for x in
                                            (e[1] if e[0] != "d" else [kv[1] for kv in e[1]])):
        marks.add("parameterized_inside_container")
    if e[0] in ("l", "t"):
        v = [_dec(x, marks) for x in e[1]]
        if not v:
            marks.add("empty_container")
        if e[0] == "t" and len(v) == 1:
            marks.add("one_tuple")
        return v if e[0] == "l" else tuple(v)
    if e[0] == "d":
        if not e[1]:
            marks.add("empty_container")
        return {_dec(k, marks): _dec(v, marks) for k, v in e[1]}
    if e[0] == "S":
        marks.add("set")
        return set(_dec(x, marks) for x in e[1])
    v = dec(e)
    if isinstance(v, float) and (math.isinf(v) or math.isnan(v)):
        marks.add("non_finite")
    if isinstance(v, (int, float)) and not isinstance(v, bool) and (v < 0 or (isinstance(v, float) and math.copysign(1, v) < 0)):
        marks.add("negative_number")
    if isinstance(v, str) and any(c in v for c in "'\"\\\n\t"):
        marks.add("string_needs_escape")
    return v


def _auto(cls_name, name):
    return bool(re.match("^" + re.escape(cls_name) + "[0-9]{5}$", name or ""))


def _same(a, b, path, diffs):
    if isinstance(a, param.Parameterized) or isinstance(b, param.Parameterized):
        if type(a) is not type(b):
            diffs.append(f"{path}: {type(a).__name__} vs {type(b).__name__}")
            return
        for n in a.param:
            va, vb = getattr(a, n), getattr(b, n)
            if n == "name" and _auto(type(a).__name__, va):
                continue
            _same(va, vb, f"{path}.{n}", diffs)
        return
    num = (int, float)
    if isinstance(a, num) and isinstance(b, num):
        # "equal" as Python's == (a value equal to the default, e.g. -0.0 vs 0, may legitimately be omitted)
        if isinstance(a, float) and isinstance(b, float) and math.isnan(a) and math.isnan(b):
            return
        if a != b:
            diffs.append(f"{path}: {a!r} vs {b!r}")
        return
    if type(a) is not type(b):
        diffs.append(f"{path}: {a!r} ({type(a).__name__}) vs {b!r} ({type(b).__name__})")
        return
    if isinstance(a, (list, tuple)):
        if len(a) != len(b):
            diffs.append(f"{path}: {a!r} vs {b!r}")
            return
        for k, (x, y) in enumerate(zip(a, b)):
            _same(x, y, f"{path}[{k}]", diffs)
        return
    if isinstance(a, dict):
        if len(a) != len(b):
            diffs.append(f"{path}: {a!r} vs {b!r}")
            return
        for k in a:
            kb = [q for q in b if q == k or (q != q and k != k)]
            if not kb:
                diffs.append(f"{path}: key {k!r} missing in {b!r}")
                return
            _same(a[k], b[kb[0]], f"{path}[{k!r}]", diffs)
        return
    if isinstance(a, (set, frozenset)):
        ra = sorted(map(repr, a))
        rb = sorted(map(repr, b))
        if ra != rb:
            diffs.append(f"{path}: {a!r} vs {b!r}")
        return
    if a != b:
        diffs.append(f"{path}: {a!r} vs {b!r}")


_TWIN_SIG = {
    "Plain": ("num, **params", "num=num, **params", "1.0"),
    "Pos": ("s, num=1.5, **params", "num, s, **params", "'tw'"),
    "PosNoKw": ("i, num=1.5", "num, i", "3"),
    "TwoPos": ("s, anyv, i=2, **params", "anyv, s, i, **params", "'tw', 5"),
    "KwOnly": ("num, s='tw', **params", "s, num=num, **params", "2.5"),
    "KwOnly2": ("num, **params", "num=num, **params", "2.5"),
}


def _print_twin(cls, res):
    """Builds a distinct class with the module and qualified name of `cls` but a different constructor signature, prints
    one of its objects and checks that text too."""
    params, call, args = _TWIN_SIG[cls.__name__]
    ns = {"base": cls}
    exec(f"class {cls.__name__}(base):\n    def __init__(self, {params}):\n        base.__init__(self, {call})\n", ns)   # noqa: S102
    T = ns[cls.__name__]
    T.__module__, T.__qualname__ = cls.__module__, cls.__qualname__
    t = eval(f"T({args})", {"T": T})     # noqa: S307
    env = dict(ms.C20_CLASSES)
    env["param"] = param
    env[cls.__name__] = T
    for how, text in (("pprint", t.param.pprint()), ("script_repr", script_repr(t, qualify=False, show_imports=False))):
        try:
            back = eval(text, dict(env))    # noqa: S307
        except Exception as e:  # noqa: BLE001
            res.fail(f"C20.{how}_not_evaluable", f"[same-named class] {how} text {text!r} of an object of a second class named "
                                                 f"{cls.__name__} raised {type(e).__name__}: {e}")
            continue
        diffs = []
        _same(t, back, "obj", diffs)
        if diffs:
            res.fail(f"C20.{how}_rebuilds_different", f"[same-named class] text {text!r}: " + "; ".join(diffs[:4]))


def execute(case):
    res = Result()
    marks = set()
    cls = ms.C20_CLASSES[case["cls"]]
    if case.get("prelude") == "twin":
        _print_twin(cls, res)
        res.label("same_named_class_printed_before")
    kw = {k: _dec(v, marks) for k, v in case["state"].items()}
    if any(v is None for k, v in kw.items() if k in ("optn", "opts", "num", "s")):
        marks.add("none_where_default_is_not_none")
    if case["name"] is not None:
        kw["name"] = case["name"].replace("@cls", case["cls"])      # names that merely resemble automatic ones
        marks.add("explicit_name")
    if case["cls"] != "Plain":
        marks.add("positional_ctor_parameter")
    restore = {}
    if case.get("history") == "class_defaults_changed_afterwards":
        for pn, new in (("i", 7), ("s", "changed"), ("num", -8.5)):
            if pn in cls.param:
                kw.setdefault(pn, cls.param[pn].default)
    obj = cls(**kw)
    if case.get("history") == "class_defaults_changed_afterwards":
        obj.param.objects()
        for pn, new in (("i", 7), ("s", "changed"), ("num", -8.5)):
            if pn in cls.param:
                restore[pn] = cls.param[pn].default
                setattr(cls, pn, new)
        res.label("class_defaults_changed_after_instance_parameters_exist")
    try:
        if case.get("overlap") and case["cls"] == "Plain" and "anyv" not in case["state"]:
            return _print_while_another_thread_prints(case, cls, kw, marks, res)
        return _print_and_compare(case, cls, obj, marks, res)
    finally:
        for pn, old in restore.items():
            setattr(cls, pn, old)


class _Held(list):
    """a list whose registered printer can be held half-way by the harness (which thus owns the schedule)"""


def _print_while_another_thread_prints(case, cls, kw, marks, res):
    import threading
    from param.parameterized import container_script_repr, script_repr_reg
    entered, release = threading.Event(), threading.Event()

    def held_repr(value, imports, prefix, settings):
        if threading.current_thread().name == "c20-A":
            entered.set()
            release.wait(20)
        return "_Held(%s)" % container_script_repr(list(value), imports, prefix, settings)
    script_repr_reg[_Held] = held_repr
    obj = cls(**dict(kw, anyv=_Held([1, 2])))
    out = {}
    a = threading.Thread(target=lambda: out.__setitem__("A", obj.param.pprint()), name="c20-A")
    a.start()
    try:
        if not entered.wait(20):
            res.fail("C20.harness", "the other thread never reached the held printer")
            return res
        out["main"] = obj.param.pprint()
    finally:
        release.set()
        a.join(20)
        script_repr_reg.pop(_Held, None)
    res.label("printed_while_another_thread_prints_the_same_object")
    ns = dict(ms.C20_CLASSES)
    ns["param"] = param
    ns["_Held"] = _Held
    for who in ("main", "A"):
        text = out.get(who)
        try:
            rebuilt = eval(text, dict(ns))     # noqa: S307
        except Exception as e:  # noqa: BLE001
            res.fail("C20.pprint_not_evaluable", f"[thread {who}] eval of {text!r} raised {type(e).__name__}: {e}")
            continue
        diffs = []
        _same(obj, rebuilt, "obj", diffs)
        if diffs:
            res.fail("C20.pprint_rebuilds_different", f"[thread {who}] text {text!r}: " + "; ".join(diffs[:4]))
    res.nontrivial = True
    return res


def _print_and_compare(case, cls, obj, marks, res):
    ns = dict(ms.C20_CLASSES)
    ns["param"] = param

    def region():
        tags = []
        if "non_finite" in marks:
            tags.append("[non-finite-float]")
        if "one_tuple" in marks:
            tags.append("[one-tuple]")
        return " ".join(tags) + (" " if tags else "")

    # ---- pprint ------------------------------------------------------------
    text = obj.param.pprint()
    try:
        rebuilt = eval(text, dict(ns))     # noqa: S307 - the point of the property
    except Exception as e:  # noqa: BLE001
        res.fail("C20.pprint_not_evaluable", f"{region()}eval of {text!r} raised {type(e).__name__}: {e}")
        rebuilt = None
    if rebuilt is not None:
        diffs = []
        _same(obj, rebuilt, "obj", diffs)
        if diffs:
            res.fail("C20.pprint_rebuilds_different", f"{region()}text {text!r}: " + "; ".join(diffs[:4]))
    # ---- script_repr -------------------------------------------------------
    full = script_repr(obj)
    imports, _, rep = full.partition("\n\n")
    ns2 = {}
    try:
        exec(imports, ns2)                 # noqa: S102
        rebuilt2 = eval(rep, ns2)          # noqa: S307
    except Exception as e:  # noqa: BLE001
        tag = "[nested-unqualified] " if ("parameterized_inside_container" in marks and isinstance(e, NameError)) else ""
        res.fail("C20.script_repr_not_evaluable", f"{tag}{region()}script_repr {full!r} raised {type(e).__name__}: {e}")
        rebuilt2 = None
    if rebuilt2 is not None:
        diffs = []
        _same(obj, rebuilt2, "obj", diffs)
        if diffs:
            res.fail("C20.script_repr_rebuilds_different", f"{region()}text {rep!r}: " + "; ".join(diffs[:4]))
    # ---- script_repr without module qualification (evaluated like pprint) -------------------------
    rep3 = script_repr(obj, qualify=False, show_imports=False)
    try:
        rebuilt3 = eval(rep3, dict(ns))    # noqa: S307
    except Exception as e:  # noqa: BLE001
        res.fail("C20.script_repr_not_evaluable", f"{region()}script_repr(qualify=False) {rep3!r} raised {type(e).__name__}: {e}")
        rebuilt3 = None
    if rebuilt3 is not None:
        diffs = []
        _same(obj, rebuilt3, "obj", diffs)
        if diffs:
            res.fail("C20.script_repr_rebuilds_different", f"{region()}text {rep3!r}: " + "; ".join(diffs[:4]))
    for m in marks:
        res.label(m)
    res.label("cls:" + case["cls"])
    res.nontrivial = bool(marks)
    return res


def _region_nested_unqualified(case, v):
    """KF-C20-1: script_repr (qualify=True by default) prints a Parameterized nested inside a list/tuple/
    dict/set without its module path (the registry printers do not receive `qualify`), so the emitted
    import lines do not make it evaluable."""
    return v.clause == "C20.script_repr_not_evaluable" and "[nested-unqualified]" in v.detail


REGIONS = {"script_repr_nested_in_container_unqualified": _region_nested_unqualified}
