"""C11 - Parameter attributes inherit along the MRO; merged defaults are re-validated.

Oracle: an independent per-slot resolver over the *declared* keyword arguments and Python's own MRO,
plus the spec predicate for "the merged default is valid under the merged constraints".
"""
from hypothesis import strategies as st

import param
from vlib import specs
from vlib.core import Result

ID = "C11"
LEVEL = "exploration"
RULE = ("Hypothesis-generated hierarchies of 2-5 classes (chains, diamonds D(B,C), classes that skip the declaration) in which "
        "each declaring level picks a type from Parameter > Number > Integer, Parameter > String, Parameter > Range, Parameter > List or Parameter > Selector (plain slots and allow_None only) and a random subset of slots "
        "(default, doc, label, precedence, bounds, inclusive_bounds, softbounds, step, allow_None, instantiate, constant, "
        "regex, per_instance, allow_refs, pickle_default_value) with values that do or do not conflict with inherited ones; the "
        "same hierarchy is also built with add_parameter on already created classes or with param.parameterized_class; a class that only inherits the Parameter may get a class-level value (it then holds a copy that the classes below it inherit from); oracle = independent per-slot MRO "
        "resolver for every slot of every class + spec predicate deciding whether creation must fail (merged default vs merged "
        "constraints/type; a None default re-checked only on type change) + invariant on every class that was created: its non-None default satisfies the spec predicate under the slots it actually has. Non-trivial = >=3 declaring classes or a diamond "
        "with a slot taken from a non-adjacent ancestor, or a merged-invalid default, or a type change; distinct = case hash. Round 5: the readonly slot is generated (mostly the explicit False, which must leave constant to be inherited).")
ASSUMPTIONS = [
    "each level's own declaration is constructible on its own (otherwise the case is a constructor-time rejection: counted, no claim)",
    "slot families: Parameter/Number/Integer, Parameter/String and Parameter/Range; Tuple slots not generated",
]
SIZES = {"quick": 2500, "thorough": 15000}

PT = {"Parameter": param.Parameter, "Number": param.Number, "Integer": param.Integer, "String": param.String,
      "Range": param.Range, "List": param.List, "Selector": param.Selector}
ITEM = {"int": int, "str": str}
TYPE_SLOTS = {
    "Parameter": ["default", "doc", "_label", "precedence", "allow_None", "instantiate", "constant", "per_instance", "allow_refs",
                  "nested_refs", "pickle_default_value", "readonly"],
}
TYPE_SLOTS["Number"] = TYPE_SLOTS["Parameter"] + ["bounds", "inclusive_bounds", "softbounds", "step"]
TYPE_SLOTS["Integer"] = TYPE_SLOTS["Number"]
TYPE_SLOTS["String"] = TYPE_SLOTS["Parameter"] + ["regex"]
TYPE_DEFAULT = {
    "Parameter": dict(default=None, precedence=None, doc=None, _label=None, instantiate=False, constant=False, readonly=False,
                      pickle_default_value=True, allow_None=False, per_instance=True, allow_refs=False, nested_refs=False),
}
TYPE_DEFAULT["Number"] = dict(TYPE_DEFAULT["Parameter"], default=0.0, bounds=None, softbounds=None, inclusive_bounds=(True, True),
                              step=None)
TYPE_DEFAULT["Integer"] = dict(TYPE_DEFAULT["Number"], default=0)
TYPE_DEFAULT["String"] = dict(TYPE_DEFAULT["Parameter"], default="", regex=None)
TYPE_SLOTS["Range"] = TYPE_SLOTS["Parameter"] + ["bounds", "inclusive_bounds", "softbounds", "step", "length"]
TYPE_DEFAULT["Range"] = dict(TYPE_DEFAULT["Parameter"], default=None, bounds=None, softbounds=None,
                             inclusive_bounds=(True, True), step=None, length=2)
TYPE_SLOTS["List"] = TYPE_SLOTS["Parameter"] + ["bounds", "item_type"]
TYPE_DEFAULT["List"] = dict(TYPE_DEFAULT["Parameter"], default=[], bounds=(0, None), item_type=None, instantiate=True)
# Selector: only the slots whose inheritance is plain are resolved (objects / default / check_on_set interact through
# auto-defaults and computed values: they are covered by the validity invariant on the created class instead)
TYPE_SLOTS["Selector"] = ["doc", "_label", "precedence", "allow_None", "instantiate", "constant", "per_instance", "allow_refs",
                          "nested_refs", "pickle_default_value", "readonly"]
TYPE_DEFAULT["Selector"] = dict(TYPE_DEFAULT["Parameter"], allow_None=None)
SUBTYPE = {("List", "Parameter"), ("Selector", "Parameter"), ("Range", "Parameter"), ("Integer", "Number"), ("Integer", "Parameter"), ("Number", "Parameter"), ("String", "Parameter")}


def _is_sub(a, b):
    return a == b or (a, b) in SUBTYPE


_common = {
    "doc": st.sampled_from(["d1", "d2"]), "label": st.sampled_from(["L1", "L2"]), "precedence": st.sampled_from([0.5, 2]),
    "allow_None": st.booleans(), "instantiate": st.booleans(), "constant": st.booleans(), "per_instance": st.booleans(),
    "allow_refs": st.booleans(), "pickle_default_value": st.booleans(),
    # (mostly the explicit False nobody normally writes: it must leave `constant` to be inherited)
    "readonly": st.sampled_from([False, False, False, True]),
}
_numeric = dict(_common, **{
    "default": st.sampled_from([0, 0.5, 5, -3, 15, None, 2.5, 2, 7]),
    "bounds": st.sampled_from([[0, 10], [1, 3], [-5, 5], [None, 4], [6, None], [2.5, 7]]),
    "inclusive_bounds": st.sampled_from([[True, True], [False, True], [True, False], [False, False]]),
    "softbounds": st.sampled_from([[0, 1], [2, 8]]), "step": st.sampled_from([1, 2]),
})
_string = dict(_common, **{"default": st.sampled_from(["", "a", "ab", "b1", None]), "regex": st.sampled_from(["^a", "^b", "^[ab]*$"])})
_range = dict(_common, **{
    "default": st.sampled_from([[0, 1], [10, 2], [2, 10], [1, 1], None, [3, 4.5], [7, 3]]),
    "bounds": st.sampled_from([[0, 10], [1, 5], [None, 4], [2, None]]),
    "inclusive_bounds": st.sampled_from([[True, True], [False, True], [True, False]]),
    "softbounds": st.sampled_from([[0, 1], [2, 8]]), "step": st.sampled_from([1, -1, 2, -2]),
})
_plain = dict(_common, **{"default": st.sampled_from([None, 0, 5, "a", 2.5, "b1"])})
_listp = dict(_common, **{
    "default": st.sampled_from([[], [1], [1, 2], [1, 2, 3], ["a"], None, [1, "a"]]),
    "bounds": st.sampled_from([[0, 2], [1, 3], [2, None], [0, 0], [1, None]]),
    "item_type": st.sampled_from(["int", "str"]),
})
_selp = dict(_common, **{
    "default": st.sampled_from([1, 2, 5, "a", None]),
    "objects": st.sampled_from([[1, 2, 3], [5, 6], ["a", "b"], [2, 5]]),
    "check_on_set": st.booleans(),
})


@st.composite
def _decl(draw, family):
    if family == "num":
        t = draw(st.sampled_from(["Number", "Number", "Integer", "Parameter"]))
    elif family == "range":
        t = draw(st.sampled_from(["Range", "Range", "Range", "Parameter"]))
    elif family == "list":
        t = draw(st.sampled_from(["List", "List", "List", "Parameter"]))
    elif family == "sel":
        t = draw(st.sampled_from(["Selector", "Selector", "Selector", "Parameter"]))
    else:
        t = draw(st.sampled_from(["String", "String", "Parameter"]))
    pool = {"Number": _numeric, "Integer": _numeric, "String": _string, "Parameter": _plain, "Range": _range, "List": _listp,
            "Selector": _selp}[t]
    if family == "range" and t == "Parameter":
        pool = dict(_common, default=_range["default"])
    if family == "list" and t == "Parameter":
        pool = dict(_common, default=_listp["default"])
    if family == "sel" and t == "Parameter":
        pool = dict(_common, default=_selp["default"])
    keys = draw(st.lists(st.sampled_from(sorted(pool)), max_size=4, unique=True))
    kw = {k: draw(pool[k]) for k in keys}
    if t == "Integer" and isinstance(kw.get("default"), float):
        kw["default"] = int(kw["default"])
    if t == "Integer" and "step" in kw:
        kw["step"] = int(kw["step"])
    return [t, kw]


@st.composite
def _case(draw):
    shape = draw(st.sampled_from(["chain", "chain", "diamond", "skip"]))
    family = draw(st.sampled_from(["num", "num", "str", "range", "list", "sel"]))
    if shape == "diamond":
        bases = [[], [0], [0], [1, 2]]
        n = 4
        if draw(st.booleans()):
            bases.append([3])
            n = 5
    else:
        n = draw(st.integers(2, 5))
        bases = [[]] + [[i - 1] for i in range(1, n)]
    decls = []
    for i in range(n):
        if i > 0 and (shape == "skip" or draw(st.integers(0, 4)) == 0) and draw(st.booleans()):
            decls.append(None)
        else:
            decls.append(draw(_decl(family)))
    if decls[0] is None:
        decls[0] = draw(_decl(family))
    if family == "range" and draw(st.integers(0, 3)) == 0:
        # a slot that changes what "valid" means: the sign of step decides the required order of (start, end).
        # Top level: an ordered default under a step of one sign; a lower level flips the sign and nothing else that
        # is validated (allow_None is kept identical at every level so that only the step differs).
        neg = draw(st.booleans())
        top = {"default": [10, 2] if neg else [2, 10], "step": -2 if neg else 2, "allow_None": True}
        low = {"step": 2 if neg else -2}
        for k in draw(st.lists(st.sampled_from(["softbounds", "doc", "precedence"]), max_size=2, unique=True)):
            low[k] = draw(_range[k])
        decls[0] = ["Range", top]
        j = draw(st.integers(1, n - 1))
        decls[j] = ["Range", low]
    # a class that does not declare the Parameter may get a class-level value assigned right after its creation: it then
    # holds its own Parameter (a copy with that default) and is the nearest holder for the classes below it
    cls_sets = {}
    for i in range(1, n):
        if decls[i] is None and draw(st.booleans()):
            cls_sets[str(i)] = draw({"num": st.sampled_from([0, 2, 5, 7, 2.5, 15]), "str": st.sampled_from(["a", "ab", "b1"]),
                                     "range": st.sampled_from([[0, 1], [2, 10], [3, 4.5]]), "list": st.sampled_from([[1], [1, 2], ["a"]]),
                                     "sel": st.sampled_from([1, 2, 5, "a"])}[family])
    return {"bases": bases, "decls": decls, "cls_sets": cls_sets,
            # how the classes come into being: a class statement, add_parameter on an empty class, or param.parameterized_class
            "via_add_parameter": draw(st.booleans()), "via_factory": draw(st.sampled_from([False, False, True]))}


def strategy(tier):
    return _case()


def _pyval(k, v, fam):
    if k == "item_type":
        return ITEM[v]
    if fam in ("list", "sel") and k in ("objects", "default"):
        return list(v) if isinstance(v, list) else v
    return tuple(v) if isinstance(v, list) else v


def _mk_param(decl, fam=None):
    t, kw = decl
    kw = {k: _pyval(k, v, fam) for k, v in kw.items()}
    return PT[t](**kw)


def _family_of(decls):
    ts = {d[0] for d in decls if d is not None}
    return "list" if "List" in ts else ("sel" if "Selector" in ts else None)


_UNK = object()


def execute(case):
    res = Result()
    decls = case["decls"]
    n = len(decls)
    fam = _family_of(decls)
    if fam is None and any(isinstance(d[1].get("default"), list) and len(d[1]["default"]) != 2 or
                           (isinstance(d[1].get("default"), list) and any(isinstance(x, str) for x in d[1]["default"]))
                           for d in decls if d is not None):
        fam = "list"          # only Parameter levels were drawn in a list-family case
    # every own declaration must be constructible standalone (else: constructor-time rejection, no claim)
    for d in decls:
        if d is None:
            continue
        try:
            _mk_param(d, fam)
        except (ValueError, TypeError):
            res.dontcare += 1
            res.label("own_declaration_rejected")
            return res
    # mirror classes: Python's own MRO decides the search order
    mirrors = []
    for i in range(n):
        mirrors.append(type(f"M{i}", tuple(mirrors[b] for b in case["bases"][i]) or (object,), {"idx": i}))
    resolved = {}     # i -> dict(slot -> value) for declaring classes
    labels = set()

    copies = {}        # class index -> value assigned at class level on a class that only inherited the Parameter

    def declaring_after(i):
        return [m.idx for m in mirrors[i].__mro__[1:] if hasattr(m, "idx") and (decls[m.idx] is not None or m.idx in copies)]

    def type_of(j):
        """Parameter type held by class j (its own declaration, or the one it copied)"""
        if decls[j] is not None:
            return decls[j][0]
        return type_of(declaring_after(j)[0])

    def slot_of_kw(k):
        return "_label" if k == "label" else k

    def resolve(i):
        if i in resolved:
            return resolved[i]
        if decls[i] is None:
            # a copy made by a class-level assignment: every slot as held by the nearest holder, with the new default
            out = dict(resolve(declaring_after(i)[0]))
            if "default" in out:
                out["default"] = copies[i]
            resolved[i] = out
            return out
        t, kw = decls[i]
        own = {slot_of_kw(k): _pyval(k, v, fam) for k, v in kw.items()}
        anc = declaring_after(i)
        out = {}
        for slot in TYPE_SLOTS[t]:
            if slot in ("allow_None", "instantiate"):
                continue
            if slot == "constant" and own.get("readonly") is True:
                out[slot] = True           # readonly=True in the declaration itself implies constant=True
                continue
            if slot in own:
                out[slot] = own[slot]
                continue
            for k, j in enumerate(anc):
                if type_of(j) == "Selector" and slot not in TYPE_SLOTS["Selector"]:
                    out[slot] = _UNK        # held by a Selector ancestor in a way this resolver does not model
                    break
                if slot in TYPE_SLOTS[type_of(j)]:
                    out[slot] = resolve(j)[slot]
                    if k > 0 or (j not in case["bases"][i]):
                        labels.add("slot_from_non_adjacent_ancestor")
                    break
            else:
                out[slot] = TYPE_DEFAULT[t][slot]
        # allow_None: recomputed from the class's own declaration
        own_default = own.get("default", TYPE_DEFAULT[t]["default"])
        if t == "Selector":
            # a Selector does not switch allow_None on for a None default: its own keyword or nothing
            out["allow_None"] = own.get("allow_None", None)
        elif own_default is None:
            out["allow_None"] = True
        elif "allow_None" in own:
            out["allow_None"] = own["allow_None"]
        else:
            out["allow_None"] = False
        # instantiate: True if the class or any ancestor says so
        inst = own.get("instantiate", TYPE_DEFAULT[t]["instantiate"])
        if own.get("readonly") is True:
            inst = False               # (decided when the Parameter is constructed: from its own keyword only)
        out["instantiate"] = bool(inst) or any(resolve(j)["instantiate"] for j in anc)
        resolved[i] = out
        return out

    def expected_failure(i):
        """Must creating class i fail?  True / False / None (no claim)."""
        t, kw = decls[i]
        anc = declaring_after(i)
        if not anc:
            return False
        r = resolve(i)
        type_change = any(not _is_sub(type_of(j), t) for j in anc)
        if type_change:
            labels.add("type_change")
        if t == "Selector" or any(type_of(j) == "Selector" for j in anc) or any(v is _UNK for v in r.values()):
            return None            # objects / auto-default / computed check_on_set are not modelled: no prediction
        d = r["default"]
        cfg = {"allow_None": r["allow_None"]}
        if t in ("Number", "Integer"):
            cfg["bounds"] = r["bounds"]
            cfg["inclusive"] = r["inclusive_bounds"]
        if t == "String":
            cfg["regex"] = r["regex"]
        if t == "Range":
            cfg["bounds"] = r["bounds"]
            cfg["inclusive"] = r["inclusive_bounds"]
            cfg["step"] = r["step"]
        if t == "List":
            cfg["list_bounds"] = r["bounds"]
            if r["item_type"] is not None:
                cfg["item_type"] = r["item_type"]
        if d is None and not type_change:
            return False
        v = specs.verdict(t, cfg, d)
        if v is None:
            return None
        return not v

    # ---- build the real hierarchy -------------------------------------------------
    classes = []
    failed_at = None
    for i in range(n):
        bases = tuple(classes[b] for b in case["bases"][i]) or (param.Parameterized,)
        want_fail = expected_failure(i) if decls[i] is not None else False
        try:
            if decls[i] is None:
                K = type(f"K{i}", bases, {})
            elif case.get("via_factory"):
                K = param.parameterized_class(f"K{i}", {"x": _mk_param(decls[i], fam)}, list(bases))
                labels.add("via_parameterized_class")
            elif case["via_add_parameter"]:
                K = type(f"K{i}", bases, {})
                K.param.add_parameter("x", _mk_param(decls[i], fam))
            else:
                K = type(f"K{i}", bases, {"x": _mk_param(decls[i], fam)})
            raised = None
        except (RuntimeError, ValueError, TypeError) as e:
            raised = e
        desc = f"class K{i} ({'add_parameter' if case['via_add_parameter'] else 'class body'}) declaring {decls[i]!r} over " \
               f"{[(j, decls[j]) for j in (declaring_after(i) if decls[i] is not None else [])]!r}"
        if want_fail is None:
            res.dontcare += 1
            if raised is not None:
                break
        elif want_fail and raised is None:
            r = resolve(i)
            res.fail("C11.invalid_merged_default_accepted", f"{desc}: merged default {r['default']!r} violates the merged "
                                                            f"constraints {({k: r[k] for k in r if k in ('bounds', 'inclusive_bounds', 'regex', 'allow_None')})!r} "
                                                            f"but the class was created")
            labels.add("merged_invalid_default")
            break
        elif not want_fail and raised is not None:
            res.fail("C11.valid_merged_default_rejected", f"{desc}: creation raised {raised!r} although the merged default "
                                                          f"{resolve(i)['default'] if decls[i] is not None else None!r} is valid")
            break
        if raised is not None:
            labels.add("merged_invalid_default")
            failed_at = i
            break
        classes.append(K)
        if decls[i] is None:
            v = (case.get("cls_sets") or {}).get(str(i))
            if v is not None and declaring_after(i):
                v = _pyval("default", v, fam)
                try:
                    K.x = v
                except (ValueError, TypeError):
                    res.dontcare += 1        # whether this value is valid for the inherited Parameter is C01's subject
                    break
                copies[i] = v
                labels.add("class_level_value_on_inheriting_class")
            continue
        # ---- every slot of K.param.x against the resolver ---------------------------
        want = resolve(i)
        p = K.param["x"]
        for slot, w in want.items():
            got = getattr(p, slot)
            if w is _UNK:
                continue
            if decls[i][0] == "Selector" and slot == "allow_None":
                if bool(got) != bool(w):
                    res.fail("C11.slot_value", f"{desc}: allow_None is {got!r}, the class's own declaration says {w!r}")
                continue
            if got != w or type(got) is not type(w):
                res.fail("C11.slot_value", f"{desc}: slot {slot!r} is {got!r}, the resolver says {w!r}")
        if type(p) is not PT[decls[i][0]]:
            res.fail("C11.slot_value", f"{desc}: Parameter type is {type(p).__name__}")
        if "default" in want and want["default"] is not _UNK and K.x != want["default"] and not (K.x is None and want["default"] is None):
            res.fail("C11.slot_value", f"{desc}: class attribute is {K.x!r}, resolver default {want['default']!r}")
        # ---- no class exists whose non-None default contradicts its own constraints or type --------------------
        t_ = decls[i][0]
        d_ = p.default
        if d_ is not None and t_ != "Parameter":
            acfg = {"allow_None": bool(p.allow_None)}
            if t_ in ("Number", "Integer", "Range"):
                acfg.update(bounds=p.bounds, inclusive=p.inclusive_bounds)
            if t_ == "Range":
                acfg["step"] = p.step
            if t_ == "String":
                acfg["regex"] = p.regex
            if t_ == "List":
                acfg["list_bounds"] = p.bounds
                if p.item_type is not None:
                    acfg["item_type"] = p.item_type
            if t_ == "Selector":
                acfg.update(objects=list(p.objects), check_on_set=p.check_on_set)
            try:
                ok = specs.verdict(t_, acfg, d_)
            except Exception:  # noqa: BLE001
                ok = None
            if ok is False:
                res.fail("C11.invalid_default_exists", f"{desc}: the class exists and its default {d_!r} contradicts its own "
                                                       f"constraints {acfg!r}")
    ndecl = sum(1 for d in decls[: (failed_at if failed_at is not None else n)] if d is not None)
    if ndecl >= 3:
        labels.add("three_declaring_classes")
    if len(case["bases"]) >= 4 and case["bases"][3] == [1, 2]:
        labels.add("diamond")
    for l in labels:
        res.label(l)
    res.label("via_add_parameter" if case["via_add_parameter"] else "via_class_body")
    res.nontrivial = bool(labels & {"slot_from_non_adjacent_ancestor", "merged_invalid_default", "type_change"}) and \
        ("three_declaring_classes" in labels or "diamond" in labels or "merged_invalid_default" in labels or "type_change" in labels)
    return res
