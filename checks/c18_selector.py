"""C18 - a Selector's objects list, names and range stay consistent under mutation.

Model: an ordered list of (name, object).  After every operation the list view, items(),
names, get_range() and accept/reject of probe assignments must all describe the model.
"""
from hypothesis import strategies as st

import param
from vlib.core import Result

ID = "C18"
LEVEL = "exploration"
RULE = ("Hypothesis-generated histories (<=12 ops) of style-consistent mutations of Selector/ListSelector "
        ".objects (list-declared: [i]=, append, insert, extend, pop(i), pop(), remove, clear, replace; "
        "dict-declared: [k]=, update(mapping/pairs/kwargs), pop(k), pop(i), remove, clear, replace; refused mutations - absent object, index out of range, missing key, malformed update item - which must change and announce nothing; optionally all through one proxy object kept by the caller, optionally with an onlychanged=False watcher) interleaved with "
        "value assignments (check_on_set=False: non-members, for ListSelector also lists naming a new object twice, are added; histories continue on objects holding such an unlabelled entry), on the class-level Parameter or a per-instance copy; oracle = ordered (name, object) "
        "list model compared after every op. Non-trivial = >=3 mutations incl. a removal, or a value assignment "
        "after a mutation; distinct = distinct case hash. Round 5: after every mutation each label that is not itself an object is probed as a value (must be refused).")
ASSUMPTIONS = [
    "objects are unique and have unique str() (the property's 'unique objects'); most are hashable, three are not (two dicts "
    "with the same keys, a list)",
    "the same object identities are used for removal as for insertion",
    "operations are style-consistent (no list-style insertion on dict-declared objects, which param deprecates)",
]
SIZES = {"quick": 2500, "thorough": 12000}

OBJ = [10, 11, 12, 13, 1000, 1001, "a", "b", "c", "dd", 2.5, (1, 2), (3,), "e", None,
       # objects that cannot be hashed (named presets): two dicts with the same keys, a list
       {"w": 1, "h": 1}, {"w": 5, "h": 5}, [7, 8]]
_NO = object()   # "no fresh object/key available"
KEYS = ["k0", "k1", "k2", "k3", "k4", "k5", "k6", "k7"]
NOBJ = len(OBJ)
NKEY = len(KEYS)

_idx = st.integers(0, 30)


def _op_list():
    return st.one_of(
        st.tuples(st.just("setidx"), _idx, _idx),
        # slice assignment: objects[i:j] = <list or iterator of new objects>
        st.tuples(st.just("setslice"), _idx, st.integers(0, 2), st.lists(_idx, max_size=2), st.booleans()),
        st.tuples(st.just("append"), _idx),
        st.tuples(st.just("insert"), _idx, _idx),
        st.tuples(st.just("extend"), st.lists(_idx, max_size=3)),
        st.tuples(st.just("extend_iter"), st.lists(_idx, min_size=1, max_size=3)),
        st.tuples(st.just("popidx"), _idx),
        st.tuples(st.just("poplast")),
        st.tuples(st.just("remove"), _idx),
        st.tuples(st.just("clear")),
        st.tuples(st.just("replace"), st.lists(_idx, max_size=4)),
        st.tuples(st.just("setval"), _idx, st.booleans()),
        st.tuples(st.just("setval"), _idx, st.booleans()),
        # a mutation that is refused (absent object, index out of range): nothing changes, nobody is notified
        st.tuples(st.just("refused"), st.sampled_from(["remove_absent", "pop_out_of_range", "set_out_of_range"]), _idx),
    )


def _op_dict():
    return st.one_of(
        st.tuples(st.just("setkey"), _idx, _idx, st.booleans()),
        st.tuples(st.just("setkey"), _idx, _idx, st.booleans()),
        st.tuples(st.just("update"), st.sampled_from(["map", "pairs", "kw"]),
                  st.lists(st.tuples(_idx, _idx, st.booleans()), max_size=3)),
        st.tuples(st.just("update_permute"), _idx, _idx, st.sampled_from(["map", "pairs", "kw"])),
        st.tuples(st.just("popkey"), _idx),
        st.tuples(st.just("popidx"), _idx),
        st.tuples(st.just("poplast")),
        st.tuples(st.just("remove"), _idx),
        # remove() given an object equal to a member but not identical with it (list.remove goes by equality)
        st.tuples(st.just("remove"), _idx, st.just(True)),
        # pop(<missing key>, default): like dict.pop it returns the default and changes nothing
        st.tuples(st.just("pop_default"), _idx),
        st.tuples(st.just("clear")),
        st.tuples(st.just("replace"), st.lists(_idx, max_size=4)),
        st.tuples(st.just("setval"), _idx, st.booleans()),
        st.tuples(st.just("setval"), _idx, st.booleans()),
        st.tuples(st.just("refused"), st.sampled_from(["remove_absent", "pop_out_of_range", "pop_missing_key", "update_malformed",
                                                       "update_valid_then_malformed"]), _idx),
    )


@st.composite
def _case(draw):
    decl = draw(st.sampled_from(["list", "dict"]))
    ops = draw(st.lists(_op_list() if decl == "list" else _op_dict(), min_size=1, max_size=12))
    cos = draw(st.sampled_from([True, True, False]))
    if not cos and draw(st.booleans()):
        # an early assignment of a non-member (check_on_set=False adds it): the later mutations then run on objects
        # that hold an automatically added entry
        ops.insert(draw(st.integers(0, min(2, len(ops)))), ("setval", draw(_idx), False))
        if decl == "dict" and draw(st.booleans()):
            at = draw(st.integers(1, len(ops)))
            ops.insert(at, ("setkey", draw(_idx), draw(_idx), False))
            ops.insert(draw(st.integers(at + 1, len(ops))), ("popkey", 29))      # 29 % len: often the entry added last
    return {
        "kind": draw(st.sampled_from(["Selector", "ListSelector"])),
        "decl": decl,
        "level": draw(st.sampled_from(["class", "instance"])),
        "init": draw(st.lists(st.integers(0, NOBJ - 1), min_size=1, max_size=4, unique=True)),
        "watch": draw(st.booleans()),
        # the watcher of `objects` may ask for every event (onlychanged=False); the caller may keep one proxy object
        # (objs = P.param.s.objects) for all its mutations instead of fetching `.objects` every time
        "watch_all": draw(st.booleans()), "keep_proxy": draw(st.sampled_from([False, False, True])),
        "cos": cos,
        "ops": [list(o) for o in ops],
    }


def strategy(tier):
    return _case()


def _fresh(model, start):
    """First pool object, scanning from `start`, not currently in the model (None if all used)."""
    used = [o for _, o in model]
    for j in range(NOBJ):
        o = OBJ[(start + j) % NOBJ]
        if not any(o is u for u in used):
            return o
    return _NO


def _freshkey(model, start):
    used = [k for k, _ in model]
    for j in range(NKEY):
        k = KEYS[(start + j) % NKEY]
        if k not in used:
            return k
    return _NO


def execute(case):
    res = Result()
    decl, kind = case["decl"], case["kind"]
    islist = kind == "ListSelector"
    init = [OBJ[i] for i in case["init"]]
    if init[0] is None:            # a None default would switch allow_None on: keep None out of slot 0
        init = init[1:] + [None] if len(init) > 1 else [OBJ[0]]
    cos = case.get("cos", True)
    auto_added = False             # check_on_set=False: an assigned non-member was added automatically
    after_permute = False
    if decl == "list":
        model = [(str(o), o) for o in init]
        objects = list(init)
    else:
        model = [(KEYS[i], o) for i, o in enumerate(init)]
        objects = dict(model)
    ptype = param.ListSelector if islist else param.Selector
    default = [init[0]] if islist else init[0]
    P = type("P", (param.Parameterized,), {"s": ptype(default=default, objects=objects, **({} if cos else {"check_on_set": False}))})
    inst = P()
    if case["level"] == "class":
        holder = P
        target = P  # value assignments on the class
    else:
        holder = inst
        target = inst

    def par():
        return holder.param.s

    log = []
    if case["watch"]:
        holder.param.watch(lambda *evs: log.append(evs), "s", what="objects", onlychanged=not case.get("watch_all"))
    kept = {"proxy": None}
    if case.get("keep_proxy") and cos:
        res.label("one_proxy_kept_by_the_caller")

    nmut = 0
    removal = False
    val_after_mut = False

    def unl():
        """dict-declared objects currently holding an object without a label (added automatically by an assignment)"""
        return decl == "dict" and any(k is None for k, _ in model)

    def compare(tag):
        if after_permute and "[after-permute]" not in tag:
            tag = "[after-permute] " + tag
        p = par()
        want_objs = [o for _, o in model]
        got = list(p.objects)
        if got != want_objs or any(a is not b for a, b in zip(got, want_objs)):
            res.fail("C18.list_view", f"after {tag}: list(objects)={got!r} model={want_objs!r}")
        try:
            items = list(p.objects.items())
        except Exception as e:  # noqa: BLE001
            res.fail("C18.items", f"after {tag}: objects.items() raised {e!r}")
            items = None
        if unl():
            # the name under which an automatically added object is listed is unspecified: only require
            # that the name mapping describes the same objects as the list view
            if items is not None and [o for _, o in items] != want_objs:
                res.fail("C18.names_objects", f"[auto-added-dict] after {tag}: objects.items()={items!r} does not "
                                              f"describe the objects {want_objs!r}")
        elif items is not None and items != model:
            res.fail("C18.items", f"after {tag}: objects.items()={items!r} model={model!r}")
        if decl == "dict" and not unl():
            if list(p.names.items()) != model and not (not model and not p.names):
                res.fail("C18.names", f"after {tag}: names={dict(p.names)!r} model={model!r}")
        rng = p.get_range()
        if unl():
            if list(rng.values()) != want_objs:
                res.fail("C18.get_range", f"after {tag}: get_range()={list(rng.items())!r} does not describe the objects {want_objs!r}")
        elif list(rng.items()) != model:
            res.fail("C18.get_range", f"after {tag}: get_range()={list(rng.items())!r} model={model!r}")

    def probe(tag):
        """Every model object is accepted; a fresh non-member is rejected; value restored."""
        for _, o in model:
            v = [o] if islist else o
            try:
                setattr(target, "s", v)
            except ValueError as e:
                res.fail("C18.member_rejected", f"after {tag}: member {o!r} rejected: {e}")
        non = _fresh(model, 0)
        if non is not _NO and cos:
            v = [non] if islist else non
            try:
                setattr(target, "s", v)
            except ValueError:
                pass
            else:
                res.fail("C18.nonmember_accepted", f"after {tag}: non-member {non!r} accepted")
        if cos:
            # a *label* is not a value: unless it happens to equal one of the objects, assigning it is rejected like any non-member
            for lab in list(par().names or {}):
                try:
                    member = any(lab == o for _l, o in model)
                except Exception:  # noqa: BLE001
                    continue
                if member or not isinstance(lab, str):
                    continue
                try:
                    setattr(target, "s", [lab] if islist else lab)
                except ValueError:
                    continue
                res.fail("C18.nonmember_accepted", f"after {tag}: the label {lab!r}, which is not one of the objects, was accepted as a value")
                break

    compare("init")
    for step, op in enumerate(case["ops"]):
        name = op[0]
        tag = ("[after-permute] " if after_permute else "") + f"op{step}:{op!r}"
        nlog = len(log)
        mutated = True
        noclaim = False
        model_before = list(model)
        unl_before = unl()
        if case.get("keep_proxy") and cos:
            if kept["proxy"] is None:
                kept["proxy"] = par().objects
            objs = kept["proxy"]
        else:
            objs = par().objects
        if name == "setidx":
            new = _fresh(model, op[2])
            if not model or new is _NO:
                continue
            i = op[1] % len(model)
            objs[i] = new
            model[i] = (str(new), new)
        elif name == "setslice":
            if not model:
                continue
            i = op[1] % len(model)
            j = min(len(model), i + op[2])
            news = []
            for sx in op[3]:
                n_ = _fresh(model + [(str(x), x) for x in news], sx)
                if n_ is not _NO:
                    news.append(n_)
            objs[i:j] = iter(news) if op[4] else list(news)
            model[i:j] = [(str(n_), n_) for n_ in news]
            if j > i:
                removal = True
            res.label("slice_assignment_from_iterator" if op[4] else "slice_assignment")
        elif name == "append":
            new = _fresh(model, op[1])
            if new is _NO:
                continue
            objs.append(new)
            model.append((str(new), new))
        elif name == "insert":
            new = _fresh(model, op[2])
            if new is _NO:
                continue
            i = op[1] % (len(model) + 1)
            objs.insert(i, new)
            model.insert(i, (str(new), new))
        elif name == "extend":
            news = []
            for s in op[1]:
                n = _fresh(model + [(str(x), x) for x in news], s)
                if n is not _NO:
                    news.append(n)
            objs.extend(news)
            model.extend((str(n), n) for n in news)
            if not news:
                noclaim = True  # an empty extend may or may not notify: no claim
                res.dontcare += 1
        elif name == "extend_iter":
            news = []
            for sx in op[1]:
                n = _fresh(model + [(str(x), x) for x in news], sx)
                if n is not _NO:
                    news.append(n)
            if not news:
                continue
            objs.extend(iter(news))      # any iterable is a legitimate argument of list.extend
            model.extend((str(n), n) for n in news)
        elif name == "update_permute":
            if len(model) < 2:
                continue
            i = op[1] % len(model)
            j = op[2] % len(model)
            if i == j:
                j = (i + 1) % len(model)
            (ki, oi), (kj, oj) = model[i], model[j]
            if ki is None or kj is None:
                continue
            pairs = [(ki, oj), (kj, oi)]
            if op[3] == "map":
                objs.update(dict(pairs))
            elif op[3] == "pairs":
                objs.update(pairs)
            else:
                objs.update({}, **dict(pairs))
            model[i], model[j] = (ki, oj), (kj, oi)
            if not after_permute:
                tag = "[after-permute] " + tag
            after_permute = True
            res.label("permute_existing")
        elif name == "popidx":
            if not model:
                continue
            i = op[1] % len(model)
            want = model.pop(i)[1]
            got = objs.pop(i)
            removal = True
            if got is not want:
                res.fail("C18.pop_return", f"{tag}: pop({i}) returned {got!r}, removed object was {want!r}")
        elif name == "poplast":
            if not model:
                continue
            want = model.pop()[1]
            got = objs.pop()
            removal = True
            if got is not want:
                res.fail("C18.pop_return", f"{tag}: pop() returned {got!r}, removed object was {want!r}")
        elif name == "popkey":
            if not model:
                continue
            i = op[1] % len(model)
            if model[i][0] is None:
                continue            # an object without a label cannot be popped by key
            k, want = model.pop(i)
            got = objs.pop(k)
            removal = True
            if got is not want:
                res.fail("C18.pop_return", f"{tag}: pop({k!r}) returned {got!r}, removed object was {want!r}")
        elif name == "remove":
            if not model:
                continue
            i = op[1] % len(model)
            _, o = model.pop(i)
            if len(op) > 2 and op[2]:
                twin = (tuple(list(o)) if isinstance(o, tuple) else list(o) if isinstance(o, list) else dict(o) if isinstance(o, dict)
                        else int(str(o)) if isinstance(o, int) and not isinstance(o, bool) and o >= 1000 else o)
                if twin is not o:
                    res.label("remove_equal_but_distinct_object")
                o = twin
            objs.remove(o)
            removal = True
        elif name == "pop_default":
            if not model or unl():
                continue
            dflt = object()
            got = objs.pop("no-such-key", dflt)
            if got is not dflt:
                res.fail("C18.pop_return", f"{tag}: pop(<missing key>, default) returned {got!r} instead of the default")
            mutated = False
            if len(log) != nlog:
                res.fail("C18.watcher_once", f"{tag}: nothing was removed but the objects watcher was called {len(log) - nlog} time(s)")
                nlog = len(log)
            res.label("pop_missing_key_with_default")
        elif name == "clear":
            if not model:
                noclaim = True  # nothing changes: a changes-only watcher is rightly silent
            objs.clear()
            del model[:]
            removal = True
            auto_added = False
        elif name == "replace":
            news = []
            for s in op[1]:
                o = OBJ[s % NOBJ]
                if not any(o is x for x in news):
                    news.append(o)
            if [o for _, o in model] == news:
                noclaim = True  # same contents: no claim about notification
            if decl == "list":
                par().objects = list(news)
                kept["proxy"] = None
                model[:] = [(str(o), o) for o in news]
            else:
                d = {KEYS[(i + 3) % NKEY]: o for i, o in enumerate(news)}
                par().objects = d
                kept["proxy"] = None
                model[:] = list(d.items())
                auto_added = False
        elif name == "refused":
            how = op[1]
            absent = _fresh(model, op[2])
            try:
                if how == "remove_absent":
                    if absent is _NO:
                        continue
                    objs.remove(absent)
                elif how == "pop_out_of_range":
                    objs.pop(len(model) + 3)
                elif how == "set_out_of_range":
                    if absent is _NO:
                        continue
                    objs[len(model) + 3] = absent
                elif how == "pop_missing_key":
                    if not model or unl():
                        continue
                    objs.pop("no-such-key")
                elif how == "update_valid_then_malformed":
                    k_ = _freshkey(model, op[2])
                    if absent is _NO or k_ is _NO or unl():
                        continue
                    objs.update([(k_, absent), ("k9",)])      # the second item is not a pair: the first must not be applied
                else:
                    if absent is _NO:
                        continue
                    objs.update([("k9", absent, "one-too-many", "items")])      # not a (key, object) pair
            except (ValueError, IndexError, KeyError, TypeError):
                pass
            else:
                res.fail("C18.refused_mutation_accepted", f"{tag}: the malformed / impossible mutation did not raise")
            noclaim = False
            mutated = False
            if len(log) != nlog:
                res.fail("C18.watcher_once", f"{tag}: the mutation was refused (nothing changed) but the objects watcher was called "
                                             f"{len(log) - nlog} time(s)")
                nlog = len(log)
            res.label("refused_mutation")
        elif name == "setkey":
            new = _fresh(model, op[2])
            if new is _NO:
                continue
            if op[3] and model:   # existing key, new object
                i = op[1] % len(model)
                k = model[i][0]
                if k is None:
                    continue
                objs[k] = new
                model[i] = (k, new)
            else:
                k = _freshkey(model, op[1])
                if k is _NO:
                    continue
                objs[k] = new
                model.append((k, new))
        elif name == "update":
            pairs = []
            shadow = list(model)
            for ki, oi, existing in op[2]:
                new = _fresh(shadow, oi)
                if new is _NO:
                    continue
                if existing and shadow:
                    i = ki % len(shadow)
                    k = shadow[i][0]
                    if k is None:
                        continue
                    shadow[i] = (k, new)
                else:
                    k = _freshkey(shadow, ki)
                    if k is _NO:
                        continue
                    shadow.append((k, new))
                pairs.append((k, new))
            if op[1] == "map":
                objs.update(dict(pairs))
                # a mapping keeps the last object per key
            elif op[1] == "pairs":
                objs.update(list(pairs))
            else:
                objs.update({}, **dict(pairs))
            if any(new is o and kk != k for k, new in pairs for kk, o in model_before):
                # an object held under one key is handed to another existing key within the same update
                # (transient duplicate): the region of KF-C18-2, exactly as the explicit update_permute op
                if not after_permute:
                    tag = "[after-permute] " + tag
                after_permute = True
                res.label("permute_existing")
            model[:] = shadow
            if not pairs:
                noclaim = True
                res.dontcare += 1
        elif name == "setval":
            mutated = False
            if model and op[2]:
                o = model[op[1] % len(model)][1]
                v = [o] if islist else o
                try:
                    setattr(target, "s", v)
                except ValueError as e:
                    res.fail("C18.member_rejected", f"{tag}: member {o!r} rejected: {e}")
                else:
                    if getattr(target, "s") is not v:
                        res.fail("C18.member_rejected", f"{tag}: value not installed")
            else:
                non = _fresh(model, op[1])
                if non is _NO:
                    continue
                v = [non] if islist else non
                if islist and op[1] % 2:
                    # a ListSelector value may name the same object more than once (and members alongside)
                    v = [non] + [o for _, o in model[:1]] + [non]
                if not cos:
                    # check_on_set=False: a non-member is accepted and becomes a member
                    setattr(target, "s", v)
                    model.append((str(non) if decl == "list" else None, non))
                    auto_added = True
                    res.label("auto_added")
                else:
                    try:
                        setattr(target, "s", v)
                    except ValueError:
                        pass
                    else:
                        res.fail("C18.nonmember_accepted", f"{tag}: non-member {non!r} accepted")
            if nmut:
                val_after_mut = True
        else:
            raise AssertionError(name)
        if mutated and model == model_before:
            noclaim = True  # no net change: a changes-only watcher is rightly silent
        if noclaim:
            mutated = False
            nlog = len(log)
        if mutated:
            nmut += 1
            if case["watch"] and len(log) - nlog != 1:
                # with an unlabelled object present the event payload is computed from the name mapping alone, so a
                # mutation touching only that object looks like "no change": same root cause as KF-C18-4
                res.fail("C18.watcher_once", ("[auto-added-dict] " if (unl_before or unl()) else "") +
                         f"{tag}: objects watcher called {len(log) - nlog} times")
            elif case["watch"]:
                ev = log[-1][0]
                want_new = [o for _, o in model]
                got_new = list(ev.new.values()) if isinstance(ev.new, dict) else list(ev.new)
                if unl():
                    res.dontcare += 1
                elif got_new != want_new:
                    res.fail("C18.watcher_event_new", f"{tag}: event.new={ev.new!r} model={want_new!r}")
        elif case["watch"] and len(log) != nlog:
            res.fail("C18.watcher_once", f"{tag}: objects watcher called for a non-mutation")
        nlog = len(log)
        compare(tag)
        if after_permute:
            # inside the region of a known finding (KF-C18-2): the immediate comparison above is reported (and
            # attributed to the finding); the history ends here
            res.label("ended_in_known_region")
            break
        if unl():
            # KF-C18-4 (the automatically added object has no label): the name-mapping comparison is attributed to
            # that finding, everything else (list view, range, pop results, membership) goes on being checked
            res.label("continued_after_unlabelled_auto_add")
        probe(tag)
        if len(log) != nlog:
            res.fail("C18.watcher_once", f"{tag}: objects watcher called by reads/value assignments")
        res.label(f"op:{name}")
    res.label(f"decl:{decl}", f"kind:{kind}", f"level:{case['level']}")
    res.nontrivial = (nmut >= 3 and removal) or val_after_mut
    if removal and decl == "dict":
        res.label("dict_removal")
    return res


def _region_permute(case, v):
    """KF-C18-2: everything observed at or after an update() that hands an existing object to another
    existing key (transient duplicate) - the list order then no longer follows the keys."""
    return "[after-permute]" in v.detail


def _region_autoadd(case, v):
    """KF-C18-4: dict-declared, check_on_set=False: an assigned non-member is appended to the list
    only, the name mapping never lists it."""
    return v.clause in ("C18.names_objects", "C18.watcher_once") and "[auto-added-dict]" in v.detail


REGIONS = {"update_permutes_existing": _region_permute, "dict_autoadd_not_named": _region_autoadd}
