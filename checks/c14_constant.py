"""C14 - constant and read-only parameters cannot be rebound after construction.

Model: the object each instance holds for c (constant), r (readonly), name; a stack of open
edit_constant blocks with the flag snapshot taken at entry.
"""
from hypothesis import strategies as st

import param
from param.parameterized import edit_constant
from vlib.core import Result

ID = "C14"
LEVEL = "exploration"
RULE = ("Hypothesis-generated histories (<=14 ops) over K (c constant, r readonly, n normal) and subclass K2: "
        "construction with/without keywords, instance sets of c/r/name/n by attribute or param.update (new object, "
        "equal-but-distinct object, identical object), class-level sets on K/K2, nested edit_constant blocks with normal or "
        "exceptional exit, reads creating per-instance Parameter copies; oracle = identity-of-held-object model + constant "
        "flag invariants after every op. Non-trivial = a forbidden assignment attempted after a class-level set on the "
        "subclass, after an exceptionally-exited or nested edit_constant, or after a per-instance copy was created; "
        "distinct = distinct case hash. Further ops: parameters made constant on one instance, references (also ones that yield nothing yet) assigned to a constant allow_refs parameter and their source changing later, callbacks assigning constants during param.trigger, raising watchers of a constant flag itself (what='constant') across edit_constant blocks, a second obj.__init__ with a rejected keyword, ParameterizedFunction.instance routes; side scenarios: an asynchronous reference pending on another parameter, Time.__call__(time_type=...) with a raising watcher. Round 5: class-level routes update / deprecated set_default, instances made inside shared_parameters(), an ordinary parameter made constant inside an update() context that is then left.")
ASSUMPTIONS = [
    "constant flags are never edited directly by the history (only edit_constant flips them)",
    "edit_constant(i) is read as unlocking instance i only: other instances stay locked while the block is open",
]
SIZES = {"quick": 2500, "thorough": 12000}

_i = st.integers(0, 7)
_o = st.integers(0, 5)
PN = ["c", "r", "name", "cn", "cs", "n", "ic", "ca"]
CONST = ("c", "r", "name", "cn", "cs", "ca")


def _ops():
    return st.one_of(
        st.tuples(st.just("new"), st.integers(0, 2), st.sampled_from(["", "", "c", "r", "name", "cn", "cs"]), _o),
        st.tuples(st.just("set"), _i, st.integers(0, 6), _o, st.sampled_from(["attr", "update"])),
        st.tuples(st.just("inst_const"), _i),
        # a reference (a Parameter of another object) assigned to the constant allow_refs parameter: refused like any value
        st.tuples(st.just("set_ref"), _i, st.sampled_from(["attr", "update", "attr_nothing_yet", "update_nothing_yet"])),
        # ... and the source of such a reference changes later
        st.tuples(st.just("src_bump"), _o),
        # a callback run by param.trigger tries to assign a constant of the same object
        st.tuples(st.just("trig_assign"), _i, st.integers(0, 4), _o),
        st.tuples(st.just("pf_instance"), st.sampled_from(["cls_ro", "inst_ro"]), _o),
        st.tuples(st.just("set"), _i, st.integers(0, 4), _o, st.sampled_from(["attr", "update"])),
        st.tuples(st.just("set_same"), _i, st.integers(0, 4), st.sampled_from(["attr", "update"])),
        # an object equal to the held one but not identical with it (a fresh list / int / str of the same value)
        st.tuples(st.just("set_equal"), _i, st.sampled_from([0, 2, 3, 4]), st.sampled_from(["attr", "update"])),
        st.tuples(st.just("cls_set"), st.integers(0, 2), st.integers(0, 4), _o),
        # the same through Cls.param.update / the deprecated Cls.param.set_default
        st.tuples(st.just("cls_set"), st.integers(0, 2), st.integers(0, 4), _o, st.sampled_from(["update", "set_default"])),
        # two instances made inside a shared_parameters() block (they share what is copied for them; constants are theirs all the same)
        st.tuples(st.just("new_shared"), st.integers(0, 2)),
        # a temporary update() of the ordinary parameter ic; ic is made constant on the instance before the block is left
        st.tuples(st.just("updctx_freeze"), _i, _o),
        st.tuples(st.just("enter"), _i),
        st.tuples(st.just("exit"), st.booleans()),
        # a watcher of the `constant` flag itself (what='constant') that raises when the flag is lowered / raised
        st.tuples(st.just("flag_watcher"), _i, st.sampled_from(["c", "cn", "name"]), st.sampled_from(["lowered", "raised"])),
        # the object is initialized a second time with a keyword that is rejected
        st.tuples(st.just("reinit_bad"), _i),
        st.tuples(st.just("read"), _i, st.integers(0, 4)),
    )


@st.composite
def _case(draw):
    # histories start by creating one or two instances (otherwise most of them would be spent on no-ops) and contain
    # one of the "special states" of the non-trivial rule early on
    head = [["new", draw(st.integers(0, 1)), draw(st.sampled_from(["", "", "c", "cn", "cs"])), draw(_o)]
            for _ in range(draw(st.integers(1, 2)))]
    special = draw(st.sampled_from([
        [["cls_set", 1, draw(st.integers(0, 3)), draw(_o)]],
        [["enter", draw(_i)], ["exit", True]],
        [["enter", draw(_i)], ["enter", draw(_i)], ["exit", draw(st.booleans())], ["exit", False]],
        [["read", draw(_i), draw(st.integers(0, 4))]],
        [],
    ]))
    rest = [list(o) for o in draw(st.lists(_ops(), min_size=1, max_size=10))]
    if draw(st.integers(0, 3)) == 0:
        # a parameter made constant on one instance only, early, so that blocks are entered and left with it in place
        rest.insert(draw(st.integers(0, len(rest))), ["inst_const", draw(_i)])
    if draw(st.integers(0, 11)) == 0:
        return {"scenario": "time_type", "pre_read": draw(st.booleans()), "calls": draw(st.lists(st.sampled_from(["float", "int", "fraction"]), min_size=1, max_size=3)),
                "route": draw(st.sampled_from(["attr", "update"])), "ops": [],
                # a watcher of time_type raises during its k-th invocation (0: never)
                "watcher_raises_at": draw(st.sampled_from([0, 0, 1, 2]))}
    if draw(st.integers(0, 7)) == 0:
        return {"scenario": "async_window", "kind": draw(st.sampled_from(["agen", "coro"])),
                "target": draw(st.sampled_from(["c", "name", "cn", "r"])), "route": draw(st.sampled_from(["attr", "update"])),
                "drains": draw(st.integers(1, 4)), "ops": []}
    return {"ops": head + special + rest}


def strategy(tier):
    return _case()


class _Boom(Exception):
    pass


def _execute_async_window(case):
    """An asynchronous reference (async generator suspended between two items / coroutine awaiting) is pending on an
    ordinary parameter of the object: constants and read-only parameters of that object stay locked meanwhile."""
    import asyncio
    res = Result()
    K = type("K", (param.Parameterized,), {
        "c": param.Parameter(default=[0], constant=True), "r": param.Parameter(default=[1], readonly=True),
        "cn": param.Parameter(default=None, constant=True), "v": param.Parameter(default=0, allow_refs=True)})

    async def main():
        o = K()
        gate = asyncio.get_running_loop().create_future()

        async def agen():
            yield 1
            await gate
            yield 2

        async def coro():
            await gate
            return 2
        o.v = agen if case["kind"] == "agen" else coro
        for _ in range(case["drains"]):
            await asyncio.sleep(0)
        n = case["target"]
        before = getattr(o, n)
        new = "other-name" if n == "name" else [42]
        try:
            if case["route"] == "attr":
                setattr(o, n, new)
            else:
                o.param.update(**{n: new})
        except TypeError:
            pass
        else:
            res.fail("C14.constant_rebound" if n != "r" else "C14.readonly_assigned",
                     f"while an asynchronous reference ({case['kind']}) was pending on another parameter, {n!r} could be rebound "
                     f"via {case['route']} (now {getattr(o, n)!r})")
        if getattr(o, n) is not before and not res.violations:
            res.fail("C14.held_object_changed", f"{n!r} changed although the assignment raised")
        gate.set_result(None)
        for _ in range(6):
            await asyncio.sleep(0)
        if o.v != 2:
            res.fail("C14.async_reference_lost", f"the pending reference did not complete normally afterwards (v={o.v!r})")
        for pn in ("c", "cn", "name", "r"):
            if K.param[pn].constant is not True or o.param[pn].constant is not True:
                res.fail("C14.flag_not_restored", f"constant flag of {pn!r} is down after the reference completed")
    asyncio.run(main())
    res.label("scenario:async_window", "kind:" + case["kind"], "target:" + case["target"])
    res.nontrivial = True
    return res


def _execute_time_type(case):
    """param.Time declares its time_type constant and documents Time.__call__(val, time_type=...) as the way to change it:
    after such calls a plain assignment is still rejected and every constant flag is up."""
    from fractions import Fraction
    res = Result()
    types = {"float": float, "int": int, "fraction": Fraction}
    t = param.Time()
    if case["pre_read"]:
        t.param["time_type"]           # the per-instance Parameter object exists before the call
    ncall = [0]

    def watcher(*events):
        ncall[0] += 1
        if ncall[0] == case.get("watcher_raises_at", 0):
            raise _Boom("time_type watcher")
    if case.get("watcher_raises_at"):
        t.param.watch(watcher, "time_type", onlychanged=False)
        res.label("time_type_watcher_raises")
    for name in case["calls"]:
        try:
            t(1, time_type=types[name])
        except _Boom:
            continue
        if t.time_type is not types[name]:
            res.fail("C14.time_type_call", f"Time.__call__(1, time_type={name}) left time_type at {t.time_type!r}")
    held = t.time_type
    try:
        if case["route"] == "attr":
            t.time_type = complex
        else:
            t.param.update(time_type=complex)
    except TypeError:
        pass
    else:
        res.fail("C14.constant_rebound", f"after Time.__call__(..., time_type=...) x{len(case['calls'])} "
                                         f"(instance Parameter {'existed' if case['pre_read'] else 'did not exist'} before) the "
                                         f"constant time_type could be rebound via {case['route']}")
    if t.time_type is not held and not res.violations:
        res.fail("C14.held_object_changed", "time_type changed although the assignment raised")
    for who, p in (("class", param.Time.param["time_type"]), ("instance", t.param["time_type"])):
        if p.constant is not True:
            res.fail("C14.flag_not_restored", f"constant flag of the {who}-level time_type Parameter is {p.constant!r} after the call")
    res.label("scenario:time_type")
    res.nontrivial = True
    return res


def execute(case):
    if case.get("scenario") == "async_window":
        return _execute_async_window(case)
    if case.get("scenario") == "time_type":
        return _execute_time_type(case)
    res = Result()
    # value pool: index 4 is equal to index 0 but a distinct object
    objs = [[0], [1], [2], [3], [0], [5]]
    names = ["n0", "n1", "n2", "n3", "n4", "n5"]
    # scalar pool for `cs`: big ints built at run time (distinct objects); index 4 equals index 0
    ints = [int("9000000" + str(k)) for k in (0, 1, 2, 3, 0, 5)]
    K = type("K", (param.Parameterized,), {
        "c": param.Parameter(default=objs[0], constant=True),
        "r": param.Parameter(default=objs[1], readonly=True),
        "cn": param.Parameter(default=None, constant=True),
        "cs": param.Parameter(default=ints[1], constant=True),
        "n": param.Number(default=1),
        "ic": param.Parameter(default=objs[3]),          # an ordinary parameter; may be made constant on one instance
        "ca": param.Parameter(default=objs[2], constant=True, allow_refs=True),
    })
    Src = type("Src", (param.Parameterized,), {"v": param.Parameter(default=objs[5])})
    src = Src()
    KF = type("KF", (param.ParameterizedFunction,), {
        "c": param.Parameter(default=objs[0], constant=True),
        "ro": param.Parameter(default=objs[1], readonly=True),
        "__call__": lambda self, **kw: None,
    })
    K2 = type("K2", (K,), {})
    # a class that overrides the default of `name`: its instances get that name instead of a generated one
    KN = type("KN", (K,), {"name": param.String(default="custom-name", constant=True)})
    classes = [K, K2, KN]
    insts = []        # list of dict(obj=..., held={...}, foreign=bool)
    stack = []        # open blocks: (cm, owner_index, flags_at_entry)
    state = {"sub_cls_set": False, "bad_exit": False, "nested": False, "copy": False}
    nontrivial = False

    def flags():
        out = {}
        for k in classes:
            for n in CONST:
                out[(k.__name__, n)] = k.param[n].constant
        for idx, rec in enumerate(insts):
            for n in CONST:
                p = rec["obj"]._param__private.params.get(n)   # read-only inspection, creates nothing
                if p is not None:
                    out[(idx, n)] = p.constant
            if rec.get("iconst"):
                out[(idx, "ic")] = rec["obj"]._param__private.params["ic"].constant
        return out

    def check_held(tag):
        for idx, rec in enumerate(insts):
            mark = "[foreign-block] " if rec["foreign"] else ""
            for n in CONST + (("ic",) if rec.get("iconst") else ()):
                got = getattr(rec["obj"], n)
                if got is not rec["held"][n]:
                    res.fail("C14.held_object_changed",
                             f"{mark}after {tag}: inst{idx}.{n} is {got!r} (id {id(got)}) but the instance held "
                             f"{rec['held'][n]!r} (id {id(rec['held'][n])})")
                    rec["held"][n] = got
        if not stack:
            for key, v in flags().items():
                if v is not True:
                    mark = ""
                    if isinstance(key[0], int) and insts[key[0]]["foreign"]:
                        mark = "[foreign-block] "
                    res.fail("C14.flag_not_restored", f"{mark}after {tag}: no edit_constant block is open but "
                                                      f"constant flag of {key} is {v!r}")

    def val_for(n, oi):
        return names[oi] if n == "name" else (ints[oi] if n == "cs" else objs[oi])

    for step, op in enumerate(case["ops"]):
        tag = f"op{step}:{op!r}"
        kind = op[0]
        res.label(f"op:{kind}")
        if kind == "new":
            cls = classes[op[1]]
            kw = {}
            if op[2]:
                kw[op[2]] = val_for(op[2], op[3])
            if op[2] == "r":
                try:
                    cls(**kw)
                except TypeError:
                    pass
                else:
                    res.fail("C14.readonly_ctor", f"{tag}: constructor accepted a value for the readonly parameter")
                continue
            o = cls(**kw)
            held = {"c": kw.get("c", cls.c), "r": cls.r, "name": o.name,
                    "cn": kw.get("cn", cls.cn), "cs": kw.get("cs", cls.cs), "ic": cls.ic, "ca": cls.ca}
            for n in ("c", "cn", "cs"):
                if n in kw and getattr(o, n) is not kw[n]:
                    res.fail("C14.ctor_value", f"{tag}: constructor keyword {n} not installed")
            if "name" in kw and o.name != kw["name"]:
                res.fail("C14.ctor_value", f"{tag}: constructor name not installed")
            if "c" not in kw and o.c is not cls.c:
                res.fail("C14.ctor_value", f"{tag}: new instance does not hold the class default object")
            insts.append({"obj": o, "held": held, "foreign": bool(stack)})
            if stack:
                res.label("created_inside_block")
        elif kind == "new_shared":
            if stack:
                continue
            cls = classes[op[1]]
            with param.shared_parameters():
                made = [cls(), cls()]
            for o in made:
                held = {"c": o.c, "r": cls.r, "name": o.name, "cn": o.cn, "cs": o.cs, "ic": cls.ic, "ca": o.ca}
                insts.append({"obj": o, "held": held, "foreign": False})
            state["copy"] = True
            res.label("created_inside_shared_parameters")
        elif kind == "updctx_freeze":
            if not insts or stack:
                continue
            idx = op[1] % len(insts)
            rec = insts[idx]
            if rec.get("iconst"):
                continue
            o = rec["obj"]
            cm = o.param.update(ic=objs[op[2]])
            cm.__enter__()
            o.param.ic.constant = True
            rec["iconst"] = True
            rec["held"]["ic"] = o.ic
            try:
                cm.__exit__(None, None, None)
            except TypeError:
                pass
            except _Boom as e:
                res.fail("C14.constant_rebound", f"{tag}: leaving the update() context touched the constant flags of inst{idx} ({e})")
            if o.ic is not rec["held"]["ic"]:
                res.fail("C14.constant_rebound", f"{tag}: leaving the update() context rebound ic of inst{idx}, which had been made "
                                                 f"constant inside the block (now {o.ic!r})")
                rec["held"]["ic"] = o.ic
            state["copy"] = True
            res.label("parameter_made_constant_inside_update_context")
        elif kind in ("set", "set_same", "set_equal"):
            if not insts:
                continue
            idx = op[1] % len(insts)
            rec = insts[idx]
            n = PN[op[2]]
            if kind == "set_same":
                v = rec["held"][n]
                route = op[3]
            elif kind == "set_equal":
                h_ = rec["held"][n]
                if isinstance(h_, list):
                    v = list(h_)
                elif isinstance(h_, int) and not isinstance(h_, bool):
                    v = int(str(h_))
                elif isinstance(h_, str) and len(h_) > 1:
                    v = "".join([h_[:1], h_[1:]])
                else:
                    continue
                if v is h_:
                    continue
                route = op[3]
                res.label("equal_but_distinct_object")
            else:
                v = 2.5 if n == "n" else val_for(n, op[3])
                route = op[4]
            o = rec["obj"]
            owners = [b[1] for b in stack]
            try:
                if route == "attr":
                    setattr(o, n, v)
                else:
                    o.param.update(**{n: v})
                raised = None
            except TypeError as e:
                raised = e
            if n == "n":
                if raised is not None:
                    res.fail("C14.normal_param", f"{tag}: setting the ordinary parameter raised {raised!r}")
                continue
            if n == "ic" and not rec.get("iconst"):
                if raised is not None:
                    res.fail("C14.normal_param", f"{tag}: setting the ordinary parameter ic raised {raised!r}")
                else:
                    rec["held"]["ic"] = v
                continue
            identical = v is rec["held"][n]
            if state["sub_cls_set"] or state["bad_exit"] or state["nested"] or state["copy"]:
                if not identical and not (idx in owners):
                    nontrivial = True
            if n == "r":
                # readonly: never assignable on an instance, inside edit_constant or not
                if raised is None and not identical:
                    res.fail("C14.readonly_assigned", f"{tag}: readonly parameter rebound on inst{idx}"
                                                      + (" inside edit_constant" if stack else ""))
                    rec["held"][n] = getattr(o, n)
                elif raised is None and identical:
                    res.dontcare += 1     # identical object: the statement's TypeError vs no-op is not settled for readonly
            elif idx in owners:
                # inside its own edit_constant block: allowed
                if raised is not None:
                    res.fail("C14.edit_constant_blocked", f"{tag}: assignment inside edit_constant raised {raised!r}")
                else:
                    rec["held"][n] = v
                res.label("set_inside_own_block")
            else:
                if stack:
                    # a block is open, but on another instance: edit_constant(i) unlocks i only
                    res.label("set_inside_foreign_block")
                if identical:
                    if raised is not None:
                        res.fail("C14.identical_rejected", f"{tag}: re-assigning the identical object raised {raised!r}")
                elif raised is None:
                    mark = "[foreign-block] " if rec["foreign"] else ""
                    res.fail("C14.constant_rebound", f"{mark}{tag}: constant parameter {n!r} of inst{idx} rebound outside "
                                                     f"edit_constant (now {getattr(o, n)!r})")
                    rec["held"][n] = getattr(o, n)
                res.label("forbidden_attempt" if not identical else "identical_attempt")
        elif kind == "set_ref":
            if not insts:
                continue
            idx = op[1] % len(insts)
            rec = insts[idx]
            if idx in [b[1] for b in stack]:
                continue            # inside its own edit_constant block the link would be a legitimate edit
            ref = src.param.v
            if op[2].endswith("_nothing_yet"):
                # a reference that yields no value right now (its function skips until the source has been bumped)
                def later(v):
                    if not (isinstance(v, list) and v and isinstance(v[0], int) and v[0] >= 100):
                        raise param.Skip
                    return v
                ref = param.bind(later, src.param.v)
                res.label("reference_that_yields_nothing_yet_assigned_to_constant")
            try:
                if op[2].startswith("attr"):
                    rec["obj"].ca = ref
                else:
                    rec["obj"].param.update(ca=ref)
            except TypeError:
                pass
            else:
                res.fail("C14.constant_rebound", f"{tag}: a reference assigned to the constant parameter ca of inst{idx} was accepted")
                rec["held"]["ca"] = rec["obj"].ca
            res.label("reference_assigned_to_constant")
        elif kind == "src_bump":
            try:
                src.v = [100 + op[1]]    # what the refused references point at changes: no constant may follow (check_held)
            except (_Boom, TypeError) as e:
                # nothing of the instances may be listening to the source: every reference was refused
                res.fail("C14.constant_rebound", f"{tag}: the source of the refused references changed and an instance reacted to it "
                                                 f"({type(e).__name__}: {e}): a refused reference is live")
            res.label("source_of_refused_reference_changes")
        elif kind == "trig_assign":
            if not insts:
                continue
            idx = op[1] % len(insts)
            rec = insts[idx]
            if idx in [b[1] for b in stack]:
                continue
            n = ["c", "name", "cn", "cs", "r"][op[2]]
            o = rec["obj"]
            outcome = []

            def attempt(*events):
                try:
                    setattr(o, n, val_for(n, op[3]))
                    outcome.append("accepted")
                except TypeError:
                    outcome.append("refused")
            h = o.param.watch(attempt, "n", onlychanged=False)
            try:
                o.param.trigger("n")
            except _Boom as e:
                # (only the watcher of a constant *flag* raises this: param.trigger has no business lowering a flag)
                res.fail("C14.constant_rebound", f"{tag}: param.trigger of an ordinary parameter touched the constant flags of inst{idx} ({e})")
            finally:
                o.param.unwatch(h)
            if outcome == ["accepted"] and getattr(o, n) is not rec["held"][n]:
                res.fail("C14.constant_rebound" if n != "r" else "C14.readonly_assigned",
                         f"{tag}: a callback run by param.trigger rebound {n!r} of inst{idx} outside edit_constant")
                rec["held"][n] = getattr(o, n)
            res.label("constant_assigned_by_callback_during_trigger")
        elif kind == "inst_const":
            # the flag is raised on one instance's own Parameter object only (the class and the others stay ordinary)
            if not insts or stack:
                continue
            rec = insts[op[1] % len(insts)]
            rec["obj"].param.ic.constant = True
            rec["iconst"] = True
            rec["held"]["ic"] = rec["obj"].ic
            state["copy"] = True
            res.label("instance_level_constant")
        elif kind == "pf_instance":
            # ParameterizedFunction.instance(): another constructor route
            v = objs[op[2]]
            try:
                made = KF.instance(ro=v) if op[1] == "cls_ro" else KF.instance().instance(ro=v)
            except TypeError:
                made = None
            if made is not None and made.ro is v:
                res.fail("C14.readonly_ctor", f"{tag}: ParameterizedFunction.instance(ro=...) ({op[1]}) built an object whose "
                                              f"readonly parameter holds the given object")
            res.label("pf_instance:" + op[1])
            continue
        elif kind == "cls_set":
            cls = classes[op[1]]
            n = ["c", "r", "cn", "cs", "name"][op[2]]
            v = val_for(n, op[3])
            route_ = op[4] if len(op) > 4 else "attr"
            try:
                if route_ == "update":
                    cls.param.update(**{n: v})
                elif route_ == "set_default":
                    import warnings
                    with warnings.catch_warnings():
                        warnings.simplefilter("ignore")
                        cls.param.set_default(n, v)
                else:
                    setattr(cls, n, v)
                raised = None
            except TypeError as e:
                raised = e
            if route_ != "attr":
                res.label("class_level_set_via_" + route_)
            if n == "r":
                if raised is None:
                    res.fail("C14.readonly_class_assigned", f"{tag}: readonly parameter assigned at class level")
            else:
                if raised is not None:
                    res.fail("C14.class_constant_blocked", f"{tag}: class-level set of a constant raised {raised!r}")
                elif getattr(cls, n) is not v:
                    res.fail("C14.class_constant_blocked", f"{tag}: class-level set did not install the object")
                if cls is K2:
                    state["sub_cls_set"] = True
        elif kind == "flag_watcher":
            if not insts or stack:
                continue
            rec = insts[op[1] % len(insts)]
            if rec.get("flag_watcher"):
                continue
            want_flag = op[3] == "raised"

            def flag_cb(event, want_flag=want_flag):
                if event.new is want_flag:
                    raise _Boom("watcher of the constant flag")
            rec["obj"].param.watch(flag_cb, [op[2]], what="constant")
            rec["flag_watcher"] = True
            state["copy"] = True
            res.label("raising_watcher_of_constant_flag:" + op[3])
        elif kind == "reinit_bad":
            if not insts or stack:
                continue
            rec = insts[op[1] % len(insts)]
            try:
                rec["obj"].__init__(n="not a number")
            except ValueError:
                pass
            else:
                res.fail("C14.harness", f"{tag}: the invalid keyword was accepted")
            # (a second initialization legitimately gives the object a new name and fresh copies of the class defaults;
            #  what it must not do, having failed, is leave the constants assignable)
            for n in CONST + ("ic",):
                rec["held"][n] = getattr(rec["obj"], n)
            state["copy"] = True
            res.label("second_initialization_rejected")
        elif kind == "enter":
            if not insts or len(stack) >= 3:
                continue
            idx = op[1] % len(insts)
            snap = flags()
            cm = edit_constant(insts[idx]["obj"])
            try:
                cm.__enter__()
            except _Boom:
                # a watcher of the flag raised while the block was being entered: no block is open
                res.label("edit_constant_entry_failed")
                now = flags()
                for key, v in snap.items():
                    if now.get(key) != v:
                        res.fail("C14.flag_not_restored", f"after {tag}: entering the block failed, constant flag of {key} was "
                                                          f"{v!r} before and is {now.get(key)!r}")
                check_held(tag)
                continue
            if stack:
                state["nested"] = True
                res.label("nested_block")
            stack.append((cm, idx, snap))
        elif kind == "exit":
            if not stack:
                continue
            cm, idx, snap = stack.pop()
            if op[1]:
                try:
                    cm.__exit__(_Boom, _Boom("body failed"), None)
                except _Boom:
                    pass
                state["bad_exit"] = True
                res.label("exceptional_exit")
            else:
                try:
                    cm.__exit__(None, None, None)
                except _Boom:
                    state["bad_exit"] = True
                    res.label("flag_watcher_raised_on_exit")
            now = flags()
            for key, v in snap.items():
                if now.get(key) != v:
                    mark = ""
                    if isinstance(key[0], int) and insts[key[0]]["foreign"]:
                        mark = "[foreign-block] "
                    res.fail("C14.flag_not_restored", f"{mark}after {tag}: constant flag of {key} was {v!r} when the "
                                                      f"block was entered and is {now.get(key)!r} after its exit")
        elif kind == "read":
            if not insts:
                continue
            rec = insts[op[1] % len(insts)]
            rec["obj"].param[PN[op[2]]]
            state["copy"] = True
            if stack and (op[1] % len(insts)) not in [b[1] for b in stack]:
                rec["foreign"] = True
        check_held(tag)
    # close what is still open, normally, and check the final state
    while stack:
        cm, idx, snap = stack.pop()
        try:
            cm.__exit__(None, None, None)
        except _Boom:
            pass
    check_held("end")
    # final probe: nothing can be rebound now
    for idx, rec in enumerate(insts):
        mark = "[foreign-block] " if rec["foreign"] else ""
        for n, v in (("c", [99]), ("name", "zz"), ("r", [98]), ("cn", [97]), ("cs", 96)) + ((("ic", [95]),) if rec.get("iconst") else ()):
            try:
                setattr(rec["obj"], n, v)
            except TypeError:
                continue
            res.fail("C14.constant_rebound" if n != "r" else "C14.readonly_assigned",
                     f"{mark}final probe: inst{idx}.{n} could be rebound after all blocks were closed")
    res.nontrivial = nontrivial
    return res


def _region_foreign(case, v):
    """KF-C14-1: edit_constant lowers the class-level flags, so instances other than the block's owner
    that are created / assigned / read while the block is open escape the constant guard for good."""
    return "[foreign-block]" in v.detail


REGIONS = {"foreign_instance_during_block": _region_foreign}
