"""C06 - `depends(watch=True)` methods run exactly once per change of a dependency.

Oracle: an independent resolver (nearest definition in the MRO; method-name dependencies resolved in
the instance's class; undecorated override = not called automatically) + an exactly-once counting
model, cross-checked with param.method_dependencies().
"""
from hypothesis import strategies as st

import param
from param.parameterized import batch_call_watchers, discard_events
from vlib.core import Result

ID = "C06"
LEVEL = "exploration"
RULE = ("Hypothesis-generated hierarchies of 1-4 classes (chains, diamonds, mixin-like second bases) over Number parameters "
        "p0..p3; methods m0..m3 defined/overridden at random levels as decorated (dependencies from parameters, 'pi:bounds' slots, "
        "lower-numbered method names; watch=True or 'queued'; on_init) or undecorated; plus a function decorated with Parameter-"
        "object dependencies of two objects; programs (<=8 ops) of set, same-value set, multi-key update, batch, slot assignment "
        "on an instance of the most derived class; oracle = independent dependency resolver + exactly-once counting per "
        "operation (and exactly one call at construction per on_init method), body that ran = nearest definition, and "
        "method_dependencies(f) == the resolver's set. Non-trivial = the hierarchy contains an override or a method-name "
        "dependency, or an op changes >=2 elements of one method's dependency set at once; distinct = case hash. Round 5: a fan-out side scenario - a dependent method assigns, one after the other, 1-3 dependencies of another dependent method, next to a third (possibly queued) method of the same trigger, by attribute / update / batch: once per assignment, once in all when the assigning method is queued.")
ASSUMPTIONS = [
    "a method named as a dependency is never overridden undecorated (an undecorated method 'depends on everything')",
    "values assigned inside a batch are always fresh, so every set inside it is a change",
]
SIZES = {"quick": 1500, "thorough": 10000}

PARAMS = ["p0", "p1", "p2", "p3"]
METHODS = ["m0", "m1", "m2", "m3"]


@st.composite
def _mdef(draw, mi, avail=PARAMS, avail_methods=()):
    if draw(st.integers(0, 4)) == 0 and mi != 0:
        return {"decorated": False}
    ms = [m for m in METHODS[:mi] if m in avail_methods]      # only methods that exist in this class or its ancestors
    pool = list(avail) + [p + ":bounds" for p in PARAMS[:2]] + ms + ms
    deps = sorted(draw(st.sets(st.sampled_from(pool), min_size=1, max_size=3)))
    d = {"decorated": True, "deps": deps, "on_init": draw(st.sampled_from([False, False, True])),
         "queued": draw(st.sampled_from([False, False, True]))}
    if d["on_init"] and draw(st.booleans()):
        d["init_sets"] = draw(st.integers(0, len(avail) - 1))      # the body assigns a parameter during its on_init call
    return d


@st.composite
def _case(draw):
    shape = draw(st.sampled_from(["single", "chain", "chain", "diamond", "mixin"]))
    if shape == "single":
        bases = [[]]
    elif shape == "chain":
        n = draw(st.integers(2, 4))
        bases = [[]] + [[i - 1] for i in range(1, n)]
    elif shape == "diamond":
        bases = [[], [0], [0], [1, 2]]
    else:
        bases = [[], [0], [0], [2, 1]]
    classes = []
    # p0, p1 are declared in the root class; p2, p3 in class 1 when `split` (parameters owned by different classes)
    split = len(bases) >= 2 and draw(st.booleans())

    def ancestors(ci):
        out = {ci}
        for b in bases[ci]:
            out |= ancestors(b)
        return out
    for ci in range(len(bases)):
        avail = PARAMS if (not split or 1 in ancestors(ci)) else PARAMS[:2]
        defs = {}
        inherited = {m for a in ancestors(ci) if a != ci for m in classes[a]}
        for mi, m in enumerate(METHODS):
            if draw(st.integers(0, 2 if ci else 1)) == 0 or (ci == 0 and mi == 0):
                defs[m] = draw(_mdef(mi, avail, inherited | set(defs)))
        classes.append(defs)
    named = {dep for defs in classes for d in defs.values() if d["decorated"] for dep in d["deps"] if dep in METHODS}
    for defs in classes:
        for name, d in list(defs.items()):
            if name in named and not d["decorated"]:
                defs[name] = {"decorated": True, "deps": ["p0"], "on_init": False, "queued": False}
    val = st.integers(1, 9)
    op = st.one_of(
        st.tuples(st.just("set"), st.integers(0, 3), val),
        st.tuples(st.just("set"), st.integers(0, 3), val),
        st.tuples(st.just("same"), st.integers(0, 3)),
        st.tuples(st.just("update"), st.lists(st.integers(0, 3), min_size=2, max_size=3, unique=True)),
        # an update whose last item is rejected (out of bounds / unknown name) after the others were applied
        st.tuples(st.just("update_rejected"), st.lists(st.integers(0, 3), min_size=2, max_size=3, unique=True),
                  st.sampled_from(["bad_value", "unknown_name"])),
        st.tuples(st.just("batch"), st.lists(st.one_of(st.tuples(st.just("v"), st.integers(0, 3)),
                                                      st.tuples(st.just("b"), st.integers(0, 1))), min_size=1, max_size=4)),
        st.tuples(st.just("slot"), st.integers(0, 1)),
        st.tuples(st.just("discard"), st.lists(st.integers(0, 3), min_size=1, max_size=2, unique=True)),
        st.tuples(st.just("fn_set"), st.integers(0, 1), st.integers(0, 1), val),
        st.tuples(st.just("fn_update"), st.integers(0, 1)),
    ).map(list)
    case = {"bases": bases, "classes": classes, "split": split, "ops": draw(st.lists(op, min_size=1, max_size=8)),
            "fn_deps": draw(st.lists(st.tuples(st.integers(0, 1), st.integers(0, 1)), min_size=1, max_size=4, unique=True))}
    if draw(st.integers(0, 3)) == 0:
        # side scenario: a dependent method that assigns (separately) the dependencies of another dependent method, next to a
        # third method of the same trigger that may be queued; the downstream method runs once per change it is told of
        case["fanout"] = {"fan_queued": draw(st.booleans()), "log_queued": draw(st.booleans()), "nassign": draw(st.integers(1, 3)),
                          "route": draw(st.sampled_from(["attr", "update", "batch"])), "log_first": draw(st.booleans()),
                          "rounds": draw(st.integers(1, 2)),
                          # afterwards a is announced again with param.trigger: the methods depending on a run, what they
                          # assign is what is there already - no change for the downstream method
                          "then_trigger": draw(st.booleans())}
    return case


def strategy(tier):
    return _case()


def execute(case):
    res = Result()
    marks = set()
    log = []
    n = len(case["bases"])

    def mk_method(ci, name, init_sets=None):
        def m(self):
            log.append((ci, name))
            if init_sets is not None and not getattr(self, "_did_init_set", {}).get(name):
                # only during the very first (on_init) call: assign a parameter other methods may depend on
                self.__dict__.setdefault("_did_init_set", {})[name] = True
                setattr(self, PARAMS[init_sets], 77)
        m.__name__ = name
        return m

    real = []
    for ci in range(n):
        ns = {}
        split = case.get("split", False)
        for p in (PARAMS[:2] if split else PARAMS) if ci == 0 else (PARAMS[2:] if split and ci == 1 else []):
            ns[p] = param.Number(default=0, bounds=(0, 100))
        for name, d in case["classes"][ci].items():
            fn = mk_method(ci, name, d.get("init_sets") if d["decorated"] else None)
            if d["decorated"]:
                fn = param.depends(*d["deps"], watch="queued" if d["queued"] else True, on_init=d["on_init"])(fn)
            ns[name] = fn
        bases = tuple(real[b] for b in case["bases"][ci]) or (param.Parameterized,)
        real.append(type(f"K{ci}", bases, ns))
    K = real[-1]
    if case.get("split") and real[1] not in K.__mro__:
        K = real[1]          # the instance class must own all four parameters
    mro = [real.index(c) for c in K.__mro__ if c in real]
    if case.get("split"):
        marks.add("parameters_owned_by_different_classes")

    # ---- independent resolver ------------------------------------------------------
    def nearest(name):
        for ci in mro:
            if name in case["classes"][ci]:
                return ci, case["classes"][ci][name]
        return None, None

    def dset(name, seen=()):
        ci, d = nearest(name)
        if d is None or not d["decorated"]:
            return None
        out = set()
        for dep in d["deps"]:
            if dep in METHODS:
                if dep in seen:
                    continue
                sub = dset(dep, seen + (name,))
                if sub is None:
                    return "unknown"
                if sub == "unknown":
                    return "unknown"
                out |= sub
                marks.add("method_name_dependency")
            elif ":" in dep:
                p, what = dep.split(":")
                out.add((p, what))
            else:
                out.add((dep, "value"))
        return out

    auto = {}
    region_inherited = False
    for name in METHODS:
        ci, d = nearest(name)
        if d is None:
            continue
        if ci != mro[0] or any(name in case["classes"][c] for c in mro if c != ci):
            if sum(1 for c in mro if name in case["classes"][c]) > 1:
                marks.add("override")
        ds = dset(name)
        if ds is None or ds == "unknown":
            continue
        auto[name] = (ci, ds, d)
        # KF-C06-1 region: f (defined in class A) names g, and g's nearest definition lies *below* A
        for dep in d["deps"]:
            if dep in METHODS:
                gi, _ = nearest(dep)
                if gi is not None and gi != ci and mro.index(gi) < mro.index(ci):
                    region_inherited = True
    # methods overridden undecorated must never be called automatically
    silent = [name for name in METHODS if nearest(name)[1] is not None and not nearest(name)[1]["decorated"]]
    mark_inh = ""
    if region_inherited:
        marks.add("inherited_method_dependency_overridden_below")

    # ---- construction -----------------------------------------------------------------
    del log[:]
    inst = K()
    want_init = [(ci, name) for name, (ci, ds, d) in auto.items() if d["on_init"]]
    init_setters = [(name, d["init_sets"]) for name, (ci, ds, d) in auto.items() if d["on_init"] and d.get("init_sets") is not None]
    if len({p for _n, p in init_setters}) == len(init_setters) <= 1:
        # an on_init body that changes a parameter (0 -> 77) makes every method depending on it run once more
        for _n, pi in init_setters:
            want_init += [(ci, name) for name, (ci, ds, d) in auto.items() if (PARAMS[pi], "value") in ds]
            marks.add("on_init_body_assigns")
        if sorted(log) != sorted(want_init):
            res.fail("C06.on_init", f"{mark_inh}construction called {sorted(log)!r}, expected {sorted(want_init)!r} (on_init methods, "
                                    f"plus the dependents of what an on_init body assigned)")
    else:
        res.dontcare += 1      # several assigning on_init bodies: their interplay is not modelled
    # ---- method_dependencies cross-check --------------------------------------------------
    for name, (ci, ds, d) in auto.items():
        try:
            got = {(pi.name, pi.what) for pi in inst.param.method_dependencies(name)}
        except Exception as e:  # noqa: BLE001
            res.fail("C06.method_dependencies", f"method_dependencies({name!r}) raised {e!r}")
            continue
        if got != ds:
            res.fail("C06.method_dependencies", f"{mark_inh}method_dependencies({name!r}) = {sorted(got)!r}, resolver says {sorted(ds)!r}")

    # ---- function form -------------------------------------------------------------------
    O = type("O", (param.Parameterized,), {"a": param.Number(0), "b": param.Number(0)})
    objs = [O(), O()]
    fn_calls = []
    fdeps = [getattr(objs[oi].param, "ab"[pi]) for oi, pi in case["fn_deps"]]

    @param.depends(*fdeps, watch=True)
    def fn(*args):
        fn_calls.append(args)
    fn_set = {(oi, "ab"[pi]) for oi, pi in case["fn_deps"]}

    vals = {p: getattr(inst, p) for p in PARAMS}
    bnds = {p: (0, 100) for p in PARAMS}
    fresh = [10]

    def nxt():
        fresh[0] += 1
        return fresh[0]

    for step, op in enumerate(case["ops"]):
        tag = f"op{step}:{op!r}"
        k = op[0]
        res.label("op:" + k)
        del log[:]
        del fn_calls[:]
        changed = set()
        fn_changed = None
        both_value_and_slot = False
        if k == "set":
            p = PARAMS[op[1]]
            if vals[p] != op[2]:
                changed.add((p, "value"))
            setattr(inst, p, op[2])
            vals[p] = op[2]
        elif k == "same":
            p = PARAMS[op[1]]
            setattr(inst, p, vals[p])
        elif k == "update":
            kw = {}
            for pi in op[1]:
                p = PARAMS[pi]
                kw[p] = nxt() % 90
                if kw[p] != vals[p]:
                    changed.add((p, "value"))
                vals[p] = kw[p]
            inst.param.update(**kw)
        elif k == "update_rejected":
            kw = {}
            for pi in op[1][:-1]:
                p = PARAMS[pi]
                kw[p] = nxt() % 90
                if kw[p] != vals[p]:
                    changed.add((p, "value"))
                vals[p] = kw[p]
            if op[2] == "bad_value":
                kw[PARAMS[op[1][-1]]] = 5000          # outside the bounds (0, 100)
            else:
                kw["no_such_parameter"] = 1
            try:
                inst.param.update(**kw)
            except (ValueError, TypeError):
                pass
            else:
                res.fail("C06.update_not_rejected", f"{tag}: update({kw!r}) did not raise")
            if any(getattr(inst, p) != v for p, v in vals.items()):
                # which of the earlier items were applied before the rejection is C05's subject: no claim for this op
                for p in PARAMS:
                    vals[p] = getattr(inst, p)
                res.dontcare += 1
                continue
            marks.add("update_with_rejected_item")
        elif k == "batch":
            with batch_call_watchers(inst):
                for what, pi in op[1]:
                    p = PARAMS[pi]
                    if what == "v":
                        v = nxt() % 90
                        if v != vals[p]:
                            changed.add((p, "value"))
                        setattr(inst, p, v)
                        vals[p] = v
                    else:
                        nb = (0, 100 + nxt())
                        inst.param[p].bounds = nb
                        bnds[p] = nb
                        changed.add((p, "bounds"))
            ps = {}
            for p, w in changed:
                ps.setdefault(p, set()).add(w)
            both_value_and_slot = any(len(w) > 1 for w in ps.values())
        elif k == "discard":
            with discard_events(inst):
                for pi in op[1]:
                    p = PARAMS[pi]
                    v = nxt() % 90
                    setattr(inst, p, v)
                    vals[p] = v
            marks.add("discard")          # nothing may run for what was set inside (changed stays empty)
        elif k == "slot":
            p = PARAMS[op[1]]
            nb = (0, 100 + nxt())
            inst.param[p].bounds = nb
            bnds[p] = nb
            changed.add((p, "bounds"))
        elif k == "fn_set":
            oi, pn = op[1], "ab"[op[2]]
            fn_changed = getattr(objs[oi], pn) != op[3] and (oi, pn) in fn_set
            setattr(objs[oi], pn, op[3])
        elif k == "fn_update":
            oi = op[1]
            fn_changed = any((oi, pn) in fn_set for pn in "ab")
            objs[oi].param.update(a=nxt(), b=nxt())
            marks.add("function_batch")
        # ---- judge ------------------------------------------------------------------------
        if fn_changed is not None:
            want = 1 if fn_changed else 0
            if len(fn_calls) != want:
                res.fail("C06.function_form", f"{tag}: the decorated function was called {len(fn_calls)}x, expected {want}")
            if log:
                res.fail("C06.spurious_call", f"{tag}: methods {log!r} ran for an unrelated object")
            continue
        for name in METHODS:
            calls = [e for e in log if e[1] == name]
            if name in silent:
                if calls:
                    res.fail("C06.undecorated_override_called", f"{tag}: {name} is overridden without decorator in K{nearest(name)[0]} "
                                                                f"but ran automatically: {calls!r}")
                continue
            if name not in auto:
                if calls and nearest(name)[1] is not None:
                    res.dontcare += 1
                continue
            ci, ds, d = auto[name]
            hit = changed & ds
            if len(hit) >= 2:
                marks.add("several_dependencies_changed_at_once")
            want = 1 if hit else 0
            tagx = mark_inh
            if len({w for _p, w in hit}) >= 2:
                tagx += "[value-and-slot-in-one-batch] "
            if len(calls) != want:
                clause = "C06.duplicate_call" if len(calls) > want and want else ("C06.missed_call" if want else "C06.spurious_call")
                res.fail(clause, f"{tagx}{tag}: {name} (deps {sorted(ds)!r}, defined in K{ci}) ran {len(calls)}x, expected {want} "
                                 f"(changed {sorted(changed)!r})")
            elif calls and calls[0][0] != ci:
                res.fail("C06.wrong_body", f"{tagx}{tag}: {name} ran the body of K{calls[0][0]}, the nearest definition is in K{ci}")
        if fn_calls:
            res.fail("C06.function_form", f"{tag}: the decorated function ran for an unrelated change")
        if res.violations:
            break
    if case.get("fanout") and not res.violations:
        _fanout_scenario(res, case["fanout"])
    for m in marks:
        res.label(m)
    res.nontrivial = bool(marks & {"override", "method_name_dependency", "several_dependencies_changed_at_once"})
    return res


def _fanout_scenario(res, c):
    """`fan_out` depends on a and assigns b, c, d one after the other (nassign of them); `total` depends on b, c, d.  When fan_out
    is an ordinary (non-queued) method each of its assignments is a change of its own for `total`: one call each.  When it is
    queued, what it assigns is announced together when it is done: one call.  A third method of a (`log`, possibly queued,
    declared before or after) must not change that - whatever the route by which a was changed."""
    calls = []
    names = ["b", "c", "d"][:c["nassign"]]

    def fan_out(self):
        calls.append("fan_out")
        for k, n_ in enumerate(names):
            setattr(self, n_, self.a * 10 ** (k + 1))

    def total(self):
        calls.append(("total", self.b, self.c, self.d))

    def log_(self):
        calls.append("log")
        self.e = self.a
    ns = {n_: param.Number(0) for n_ in ("a", "b", "c", "d", "e")}
    logm = param.depends("a", watch="queued" if c["log_queued"] else True)(log_)
    if c["log_first"]:
        ns["log"] = logm
    ns["fan_out"] = param.depends("a", watch="queued" if c["fan_queued"] else True)(fan_out)
    ns["total"] = param.depends("b", "c", "d", watch=True)(total)
    if not c["log_first"]:
        ns["log"] = logm
    O = type("O", (param.Parameterized,), ns)
    o = O()
    res.label("fanout:" + ("queued" if c["fan_queued"] else "immediate") + ":" + c["route"])
    for r in range(1, c["rounds"] + 1):
        del calls[:]
        if c["route"] == "attr":
            o.a = r
        elif c["route"] == "update":
            o.param.update(a=r)
        else:
            with batch_call_watchers(o):
                o.a = r
        tot = [x for x in calls if isinstance(x, tuple)]
        want = 1 if c["fan_queued"] else c["nassign"]
        if calls.count("fan_out") != 1 or calls.count("log") != 1:
            res.fail("C06.duplicate_call" if max(calls.count("fan_out"), calls.count("log")) > 1 else "C06.missed_call",
                     f"fanout {c!r}, round {r}: the methods depending on a ran {calls!r}")
        elif len(tot) != want:
            res.fail("C06.missed_call" if len(tot) < want else "C06.duplicate_call",
                     f"fanout {c!r}, round {r}: the method depending on {names!r} ran {len(tot)}x, expected {want}x: {calls!r}")
        elif tot and tot[-1][1:] != (o.b, o.c, o.d):
            res.fail("C06.stale_values", f"fanout {c!r}, round {r}: the last call saw {tot[-1]!r}, the values are {(o.b, o.c, o.d)!r}")
    if c.get("then_trigger") and not res.violations:
        del calls[:]
        o.param.trigger("a")
        tot = [x for x in calls if isinstance(x, tuple)]
        res.label("fanout:then_trigger")
        if calls.count("fan_out") != 1 or calls.count("log") != 1:
            res.fail("C06.missed_call", f"fanout {c!r}: param.trigger('a') ran the methods depending on a {calls!r}")
        elif tot:
            res.fail("C06.spurious_call", f"fanout {c!r}: param.trigger('a') made a method re-assign the values {names!r} already "
                                          f"have; the method depending on them ran {len(tot)}x although none of them changed: {calls!r}")


def _region_value_and_slot(case, v):
    """KF-C06-2: a method depending on parameter values and on Parameter attributes ('q:bounds') runs twice for
    one batch that changes one of each (one watcher per `what`)."""
    return "[value-and-slot-in-one-batch]" in v.detail and v.clause == "C06.duplicate_call"


REGIONS = {"value_and_slot_in_one_batch": _region_value_and_slot}
