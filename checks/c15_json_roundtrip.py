"""C15 - JSON serialization round-trips every serializable parameter value."""
import datetime as dt
import json

from hypothesis import strategies as st

from vlib import jsonworld as jw
from vlib.core import Result, same_value

ID = "C15"
LEVEL = "exploration"
RULE = ("Hypothesis-generated classes of 1-5 parameters drawn from Integer, Number, String, Boolean, Tuple, NumericTuple, "
        "XYCoordinates, Range, Date, CalendarDate, DateRange, CalendarDateRange, List, Dict, Selector, ListSelector, Color "
        "with random constraint configurations, and valid states built by construction (extreme finite floats, -0.0, big "
        "ints, unicode incl. escapes and lone surrogates, empty containers, None where allowed, datetimes with "
        "microseconds over years 1-9999, date-only and datetime ranges); class level and instance level, random subset=, "
        "serialize_value/deserialize_value per parameter, a second deserialization of the same text after the first result was edited in place, instances that follow reassigned class defaults; oracle = rebuilt object equal in value and exact Python type "
        "(recursively), text parses as strict JSON. Non-trivial = the state contains a type-sensitive value (tuple, "
        "datetime with microseconds, date-only range, None, integer-valued float, bool in a Number, empty container, year "
        "< 1000); distinct = case hash. Round 5: bools held by Integer / Number parameters and numeric tuple elements, falsy (empty container-like) instances.")
ASSUMPTIONS = [
    "Date parameters hold naive datetimes; elements of Tuple/List/Dict are JSON-native (a tuple nested inside a container comes "
    "back as a list: that is JSON, not param); Number values are int/float/bool",
]
SIZES = {"quick": 2000, "thorough": 12000}

_TYPES = [t for t in jw.TYPES if t != "ClassSelector"]


@st.composite
def _case(draw):
    specs = draw(st.lists(jw.param_spec(types=_TYPES), min_size=1, max_size=5))
    n = len(specs)
    return {
        "params": [jw.enc_spec(s) for s in specs],
        "level": draw(st.sampled_from(["instance", "instance", "class"])),
        "subset": draw(st.one_of(st.none(), st.none(), st.lists(st.integers(0, n - 1), min_size=0, max_size=n, unique=True))),
        "ser_subset_only": draw(st.booleans()),
        # how the instance-level state came about: constructor keywords, or an instance that owns per-instance Parameter
        # objects and follows class defaults reassigned afterwards
        "history": draw(st.sampled_from(["ctor", "ctor", "follow_class"])),
        # the objects are container-like and empty, hence falsy
        "falsy": draw(st.sampled_from([False, False, False, True])),
    }


def strategy(tier):
    return _case()


def _strict(text):
    def bad(x):
        raise ValueError("non-standard JSON constant " + x)
    return json.loads(text, parse_constant=bad)


def _marks(v, marks):
    if v is None:
        marks.add("none")
    elif isinstance(v, bool):
        marks.add("bool")
    elif isinstance(v, tuple):
        marks.add("tuple")
        if not v:
            marks.add("empty_container")
        for x in v:
            _marks(x, marks)
    elif isinstance(v, (list, dict)):
        if not v:
            marks.add("empty_container")
        for x in (v.values() if isinstance(v, dict) else v):
            _marks(x, marks)
    elif isinstance(v, dt.datetime):
        if v.microsecond:
            marks.add("microseconds")
        if v.year < 1000:
            marks.add("year_lt_1000")
    elif isinstance(v, dt.date):
        marks.add("date_only")
        if v.year < 1000:
            marks.add("year_lt_1000")
    elif isinstance(v, float) and v == int(v) and abs(v) < 1e15:
        marks.add("integer_valued_float")


def _scribble(v):
    """edits a deserialized container in place (as its new owner may); returns the number of edits"""
    if isinstance(v, list):
        n = sum(_scribble(x) for x in v)
        v.append("scribble")
        return n + 1
    if isinstance(v, dict):
        n = sum(_scribble(x) for x in v.values())
        v["scribble"] = 1
        return n + 1
    return 0


def execute(case):
    res = Result()
    specs = [jw.dec_spec(e) for e in case["params"]]
    K = jw.build_class(specs, extra_ns={"__len__": lambda self: 0} if case.get("falsy") else None)
    if case.get("falsy"):
        res.label("falsy_instances")
    names = [f"p{i}" for i in range(len(specs))]
    marks = set()
    if case["level"] == "class":
        holder = K
        expected = {n: s[2] for n, s in zip(names, specs)}
    elif case.get("history") == "follow_class":
        holder = K()
        holder.param.objects()                  # per-instance Parameter objects exist from here on
        for n, s in zip(names, specs):
            setattr(K, n, s[3])
        expected = {n: getattr(holder, n) for n in names}
        res.label("history:class_default_reassigned_after_instance_parameters_exist")
    else:
        holder = K(**{n: s[3] for n, s in zip(names, specs)})
        expected = {n: s[3] for n, s in zip(names, specs)}
    for v in expected.values():
        _marks(v, marks)
    region = ""
    subset = None if case["subset"] is None else [names[i] for i in case["subset"]]
    res.label("level:" + case["level"], "all" if subset is None else ("subset" if subset else "empty_subset"))
    for t, *_ in specs:
        res.label("type:" + t)

    # ---- object level -------------------------------------------------------
    text = holder.param.serialize_parameters(subset=subset)
    try:
        parsed = _strict(text)
    except ValueError as e:
        res.fail("C15.not_standard_json", f"{region}{text!r}: {e}")
        return res
    want_keys = set(subset) if subset is not None else set(names) | {"name"}
    if set(parsed) != want_keys:
        res.fail("C15.serialized_keys", f"{region}serialize_parameters(subset={subset}) produced keys {sorted(parsed)}, "
                                        f"expected {sorted(want_keys)}")
    try:
        kwargs = K.param.deserialize_parameters(text, subset=None if case["ser_subset_only"] else subset)
    except Exception as e:  # noqa: BLE001
        res.fail("C15.deserialize_raised", f"{region}deserialize_parameters({text!r}) raised {type(e).__name__}: {e}")
        kwargs = None
    if kwargs is not None:
        if set(kwargs) != want_keys:
            res.fail("C15.deserialized_keys", f"{region}deserialize_parameters(subset={subset}) produced keys "
                                              f"{sorted(kwargs)}, expected {sorted(want_keys)}")
        try:
            rebuilt = K(**kwargs)
        except Exception as e:  # noqa: BLE001
            res.fail("C15.rebuild_raised", f"{region}constructor with {kwargs!r} raised {type(e).__name__}: {e}")
            rebuilt = None
        if rebuilt is not None:
            for n in names:
                if n not in kwargs:
                    continue
                got = getattr(rebuilt, n)
                if not same_value(got, expected[n]):
                    res.fail("C15.value_or_type_changed", f"{region}{specs[names.index(n)][0]} {n}: {expected[n]!r} "
                                                          f"({type(expected[n]).__name__}) came back as {got!r} "
                                                          f"({type(got).__name__}) via {parsed.get(n)!r}")
        # the same text deserialized again, after the containers handed out the first time were edited in place
        mutated = 0
        for v in kwargs.values():
            mutated += _scribble(v)
        if mutated:
            res.label("deserialized_twice_after_in_place_edit")
            try:
                again = K.param.deserialize_parameters(text, subset=None if case["ser_subset_only"] else subset)
            except Exception as e:  # noqa: BLE001
                res.fail("C15.deserialize_raised", f"second deserialize_parameters({text!r}) raised {type(e).__name__}: {e}")
                again = {}
            for n in names:
                if n in again and not same_value(again[n], expected[n]):
                    res.fail("C15.value_or_type_changed", f"{specs[names.index(n)][0]} {n}: deserializing the same text a second "
                                                          f"time (after the first result was edited in place) gave {again[n]!r} "
                                                          f"instead of {expected[n]!r}")
    # ---- per parameter ----------------------------------------------------------
    for n in names:
        try:
            s = holder.param.serialize_value(n)
            _strict(s)
            got = holder.param.deserialize_value(n, s)
        except Exception as e:  # noqa: BLE001
            res.fail("C15.value_roundtrip_raised", f"{region}{specs[names.index(n)][0]} {n}={expected[n]!r}: "
                                                   f"serialize_value/deserialize_value raised {type(e).__name__}: {e}")
            continue
        if not same_value(got, expected[n]):
            res.fail("C15.value_or_type_changed", f"{region}{specs[names.index(n)][0]} {n}: serialize_value/deserialize_value "
                                                  f"turned {expected[n]!r} into {got!r} via {s!r}")
        if _scribble(got):
            got2 = holder.param.deserialize_value(n, s)
            if not same_value(got2, expected[n]):
                res.fail("C15.value_or_type_changed", f"{specs[names.index(n)][0]} {n}: deserialize_value of the same text a second "
                                                      f"time (after the first result was edited in place) gave {got2!r} instead "
                                                      f"of {expected[n]!r}")
    for m in marks:
        res.label(m)
    res.nontrivial = bool(marks)
    return res
