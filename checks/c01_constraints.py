"""C01 - accepted values always satisfy the parameter's declared constraints.

A case is (parameter type, constraint configuration, candidate value); every assignment route
(declaration default, constructor, instance attribute, class attribute, param.update, and - for
JSON-native values - deserialization) is tried on fresh classes and compared with the verdict of
the hand-written spec predicate (vlib/specs.py).
"""
import datetime as dt
import itertools
import json
import math
from decimal import Decimal
from fractions import Fraction

from hypothesis import strategies as st

import param
from vlib import specs
from vlib.core import Result, dec, enc

ID = "C01"
LEVEL = "exploration"
RULE = ("case = (Parameter type, constraint configuration, candidate value), all six routes tried inside the case. A finite "
        "boundary abstraction is enumerated completely on every run: {Number, Integer, Magnitude, Date, CalendarDate, Range} "
        "x {bounds none/lower/upper/both} x {4 inclusivity pairs} x {allow_None unspecified/True} x {~35 pool values: each "
        "bound, its float neighbours, bound+-1, the bound as int/float/Fraction/Decimal/bool, NaN, +-inf, None, bool, str, "
        "bytes, containers, date vs datetime, callable, generator function}; Boolean/String/Bytes/Tuple/NumericTuple/"
        "XYCoordinates/List/Dict/Callable/Selector/ListSelector/ClassSelector/Color/DateRange/CalendarDateRange and random "
        "numeric bounds, regexes, lengths, item types and object lists come from Hypothesis. Oracle = spec predicate "
        "verdict (accept / reject with ValueError|TypeError / no claim), identity of the read-back after acceptance, previous "
        "value after rejection. Non-trivial = the value lies on or next to a constraint boundary (equals/neighbours a bound, "
        "NaN/inf, None, bool offered to a numeric type, date vs datetime, length +-1, == but not `is` a listed object, regex "
        "prefix match); distinct = distinct (type, configuration, value). Round 5: the labels of a dict-declared Selector are among the candidate values (a label is not a value).")
ASSUMPTIONS = [
    "trusted base: vlib/specs.py, written from the docstrings / user guide",
    "Path/Filename/Foldername/FileSelector/MultiFileSelector (constraint = file system), Array/DataFrame/Series (numpy/pandas "
    "absent) and Composite are outside the domain",
    "no claim (counted): callables on non-Dynamic types, check_on_set=False selectors, named colors, mixed date/datetime "
    "range ends, datetime ends of a CalendarDateRange",
]
SIZES = {"quick": 4000, "thorough": 25000}
EXHAUSTIVE_NOTE = ("{Number, Integer, Magnitude, Date, CalendarDate, Range} x bounds shape x inclusivity x allow_None x boundary "
                   "value pool x all routes")

TYPES = {"int": int, "float": float, "str": str, "bool": bool, "list": list, "dict": dict, "tuple": tuple,
         "date": dt.date, "datetime": dt.datetime, "Fraction": Fraction}


def _f():
    return 5


def _g():
    yield 5


def _hook(obj, val):
    """Number.set_hook used by some configurations: scales plain numbers by 100 (the stored value is what counts)."""
    if isinstance(val, (int, float)) and not isinstance(val, bool):
        return val * 100
    return val


def _decv(e):
    if e[0] == "call":
        return _f
    if e[0] == "genfn":
        return _g
    if e[0] == "cls":
        return TYPES[e[1]]
    if e[0] in ("l", "t"):
        v = [_decv(x) for x in e[1]]
        return v if e[0] == "l" else tuple(v)
    return dec(e)


def _cfg(c):
    out = {}
    for k, v in c.items():
        if k in ("bounds", "list_bounds"):
            out[k] = None if v is None else tuple(None if x is None else _decv(x) for x in v)
        elif k == "inclusive":
            out[k] = tuple(v)
        elif k in ("item_type", "class_"):
            out[k] = tuple(TYPES[x] for x in v) if isinstance(v, list) else TYPES[v]
        elif k == "objects":
            out[k] = [_decv(x) for x in v]
        elif k == "step":
            out[k] = None if v is None else _decv(v)
        else:
            out[k] = v
    return out


PTYPES = {n: getattr(param, n) for n in
          ["Parameter", "Number", "Integer", "Magnitude", "Boolean", "String", "Bytes", "Date", "CalendarDate", "Tuple",
           "NumericTuple", "XYCoordinates", "Range", "DateRange", "CalendarDateRange", "List", "Dict", "Callable", "Selector",
           "ListSelector", "ClassSelector", "Color"]}


def _kwargs(ptype, cfg):
    kw = {}
    for k, v in cfg.items():
        if k == "inclusive":
            kw["inclusive_bounds"] = v
        elif k == "list_bounds":
            kw["bounds"] = v
        elif k == "allow_None":
            if v is not None:
                kw["allow_None"] = v
        elif k == "regex" and ptype == "Bytes":
            kw["regex"] = v.encode()
        elif k == "set_hook":
            kw["set_hook"] = _hook
        elif k in ("edits", "objects_style"):
            continue
        elif k == "objects" and cfg.get("objects_style") == "dict":
            kw["objects"] = {"k%d" % i: o for i, o in enumerate(v)}
        else:
            kw[k] = v
    return kw


# ---------------------------------------------------------------------------
# pools

def _nx(x, d):
    return math.nextafter(float(x), d)


def _numeric_pool(lo, hi):
    vals = [None, True, False, "5", b"5", [5], (5,), dt.date(2020, 1, 1), float("nan"), float("inf"), float("-inf"),
            complex(1, 0), _f, _g, 0.5]
    for b in (lo, hi):
        vals += [b, float(b), b - 1, b + 1, _nx(b, -math.inf), _nx(b, math.inf), Fraction(b), Decimal(b),
                 Fraction(2 * b + 1, 2), float(b) + 0.5]
    return vals


def _enc(v):
    if v is _f:
        return ["call"]
    if v is _g:
        return ["genfn"]
    if isinstance(v, type):
        return ["cls", [k for k, t in TYPES.items() if t is v][0]]
    if isinstance(v, (list, tuple)) and not isinstance(v, str):
        return ["l" if isinstance(v, list) else "t", [_enc(x) for x in v]]
    return enc(v)


D0, D1 = dt.date(2020, 1, 1), dt.date(2020, 1, 10)


def enumerate_cases(tier):
    incs = [[True, True], [True, False], [False, True], [False, False]]
    # --- numeric types --------------------------------------------------------
    for ptype, (lo, hi) in (("Number", (0, 10)), ("Integer", (0, 10)), ("Magnitude", (0, 1))):
        shapes = [None, (lo, None), (None, hi), (lo, hi)]
        if ptype == "Magnitude":
            shapes = [(lo, hi)]
        for shape in shapes:
            for inc in (incs if shape is not None else [None]):
                for an in (None, True):
                    cfg = {}
                    if shape is not None and ptype != "Magnitude":
                        cfg["bounds"] = [None if x is None else _enc(x) for x in shape]
                    if inc is not None:
                        cfg["inclusive"] = inc
                    if an is not None:
                        cfg["allow_None"] = an
                    for v in _numeric_pool(lo, hi):
                        yield {"ptype": ptype, "cfg": cfg, "v": _enc(v)}
    # --- dates ------------------------------------------------------------------
    dpool = [None, D0, D1, dt.date(2019, 12, 31), dt.date(2020, 1, 11), dt.date(2020, 1, 5),
             dt.datetime(2020, 1, 1), dt.datetime(2020, 1, 10), dt.datetime(2020, 1, 10, 0, 0, 0, 1),
             dt.datetime(2019, 12, 31, 23, 59, 59, 999999), dt.datetime(2020, 1, 5, 12), 5, 5.0, "2020-01-05", (D0,), [D0], True, _f]
    for ptype in ("Date", "CalendarDate"):
        for shape in (None, (D0, None), (None, D1), (D0, D1), (dt.datetime(2020, 1, 1), dt.datetime(2020, 1, 10))):
            if ptype == "CalendarDate" and shape is not None and isinstance(shape[0] or shape[1], dt.datetime):
                continue
            for inc in (incs if shape is not None else [None]):
                for an in (None, True):
                    cfg = {}
                    if shape is not None:
                        cfg["bounds"] = [None if x is None else _enc(x) for x in shape]
                    if inc is not None:
                        cfg["inclusive"] = inc
                    if an is not None:
                        cfg["allow_None"] = an
                    for v in dpool:
                        yield {"ptype": ptype, "cfg": cfg, "v": _enc(v)}
    # --- Range ------------------------------------------------------------------
    ends = [0, 10, -1, 11, 5, _nx(0, -math.inf), _nx(10, math.inf), float("nan"), float("inf"), 0.0, 10.0]
    rpool = [None, 5, [1, 2], (1,), (1, 2, 3), ("a", 1), (D0, D1), (True, False)] + [(a, b) for a in ends for b in ends]
    for shape in (None, (0, None), (None, 10), (0, 10)):
        for inc in (incs if shape is not None else [None]):
            for an in (None, True):
                for step in (None, 1, -1):
                    cfg = {}
                    if shape is not None:
                        cfg["bounds"] = [None if x is None else _enc(x) for x in shape]
                    if inc is not None:
                        cfg["inclusive"] = inc
                    if an is not None:
                        cfg["allow_None"] = an
                    if step is not None:
                        cfg["step"] = _enc(step)
                    if tier == "quick" and step is not None and inc not in (None, [True, True], [False, False]):
                        continue
                    for v in rpool:
                        yield {"ptype": "Range", "cfg": cfg, "v": _enc(v)}


# ---------------------------------------------------------------------------
# random configurations

_num = st.one_of(st.integers(-5, 15), st.floats(-5, 15, allow_nan=False).map(lambda x: round(x, 2)),
                 st.sampled_from([Fraction(1, 3), Fraction(21, 2)]))
_anyv = st.one_of(
    st.none(), st.booleans(), st.integers(-3, 12), st.floats(allow_nan=True, allow_infinity=True, width=32),
    st.sampled_from([0.0, -0.0, 10.0, float("nan"), Fraction(1, 2), Decimal("2.5"), complex(0, 1)]),
    st.text(alphabet="ab01#fF", max_size=7), st.binary(max_size=3),
    st.sampled_from([D0, D1, dt.datetime(2020, 1, 5, 1), _f, _g, int, str, bool]),
)
_val = st.recursive(_anyv, lambda ch: st.one_of(st.lists(ch, max_size=3), st.lists(ch, max_size=3).map(tuple)), max_leaves=4)


_NEW_OBJS = [7, "z", 2.5, [9], 1, "a"]


def _walk_edits(objs, edits, style, proxy_of=None):
    """List model of Selector.objects under index/key edits; returns (objects afterwards, objects added or removed).
    Keys of a dict declaration are k0, k1, ... in order. With `proxy_of` (returning a fresh `.objects`) the same edits are
    also made through the public ListProxy API. Key edits stop once a dict-declared Selector was edited by position
    (mixing the two styles is outside what this check models: the name table is stale then)."""
    objs = list(objs)
    keys = ["k%d" % i for i in range(len(objs))] if style == "dict" else None
    touched = []
    mixed = False
    for e in edits:
        op = e[0]
        if op == "set":
            if e[1] < len(objs):
                new = _decv(e[2])
                touched += [objs[e[1]], new]
                objs[e[1]] = new
                mixed = True
                if proxy_of:
                    proxy_of()[e[1]] = new
        elif op == "append":
            new = _decv(e[1])
            touched.append(new)
            objs.append(new)
            mixed = True
            if keys is not None:
                keys.append(None)
            if proxy_of:
                proxy_of().append(new)
        elif op == "insert":
            new = _decv(e[2])
            touched.append(new)
            i = min(e[1], len(objs))
            objs.insert(i, new)
            mixed = True
            if keys is not None:
                keys.insert(i, None)
            if proxy_of:
                proxy_of().insert(i, new)
        elif op == "pop":
            if e[1] < len(objs):
                touched.append(objs.pop(e[1]))
                if keys is not None:
                    keys.pop(e[1])
                if proxy_of:
                    proxy_of().pop(e[1])
        elif op == "setkey" and keys is not None and not mixed:
            new = _decv(e[2])
            if e[1] in keys:
                i = keys.index(e[1])
                touched += [objs[i], new]
                objs[i] = new
            else:
                touched.append(new)
                objs.append(new)
                keys.append(e[1])
            if proxy_of:
                proxy_of()[e[1]] = new
    return objs, touched


@st.composite
def _case(draw):
    ptype = draw(st.sampled_from(["Number", "Integer", "Boolean", "String", "Bytes", "Tuple", "NumericTuple", "XYCoordinates",
                                  "Range", "List", "Dict", "Callable", "Selector", "ListSelector", "ClassSelector", "Color",
                                  "DateRange", "CalendarDateRange", "Date", "Parameter"]))
    cfg = {}
    an = draw(st.sampled_from([None, None, True, False]))
    if an is not None:
        cfg["allow_None"] = an
    extra = []        # values worth trying for this configuration
    if ptype in ("Number", "Integer", "Range"):
        lo = draw(st.one_of(st.none(), _num))
        hi = draw(st.one_of(st.none(), _num))
        if lo is not None and hi is not None and lo > hi:
            lo, hi = hi, lo
        if lo is not None or hi is not None:
            cfg["bounds"] = [None if x is None else _enc(x) for x in (lo, hi)]
            cfg["inclusive"] = [draw(st.booleans()), draw(st.booleans())]
            for b in (lo, hi):
                if b is not None:
                    extra += [b, float(b), _nx(b, -math.inf), _nx(b, math.inf), int(math.floor(b)), int(math.ceil(b)), b + 1, b - 1]
        if ptype in ("Number", "Integer") and draw(st.integers(0, 5)) == 0:
            cfg["set_hook"] = "x100"         # the (deprecated) hook transforms the value before it is stored
        if ptype == "Range":
            extra = [(a, b) for a in extra[:6] for b in extra[:6]][:20] + [(1, 2), (2, 1)]
            st_ = draw(st.sampled_from([None, None, 1, -1, 0.5]))
            if st_ is not None:
                cfg["step"] = _enc(st_)
    elif ptype in ("String", "Bytes"):
        rx = draw(st.sampled_from([None, "^a", "ab", "^[ab]+$", "a.b", "^$", "^(a|b)0?1*$", "[0-9]{2,3}", "^#?[0-9a-f]{3}$"]))
        if rx is not None:
            cfg["regex"] = rx
        strs = ["", "a", "ab", "abz", "ba", "aXb", "a\nb", "01", "0123", "#fff", "aab", "b011"]
        extra = strs if ptype == "String" else [s.encode() for s in strs]
        extra += strs[:3] if ptype == "Bytes" else [b"a"]
    elif ptype in ("Tuple", "NumericTuple"):
        n = draw(st.integers(0, 3))
        cfg["length"] = n
        extra = [tuple(range(k)) for k in (n - 1, n, n + 1) if k >= 0] + [list(range(n)), tuple("a" for _ in range(n)),
                                                                            tuple(True for _ in range(n)), tuple(float("nan") for _ in range(n))]
    elif ptype == "XYCoordinates":
        extra = [(1, 2), (1.5, float("nan")), (1,), (1, 2, 3), [1, 2], ("a", 1), (True, 2)]
    elif ptype == "List":
        if draw(st.booleans()):
            a = draw(st.integers(0, 2))
            b = draw(st.integers(a, 3))
            cfg["list_bounds"] = [_enc(a), _enc(b)]
        it = draw(st.sampled_from([None, "int", "str", ["int", "str"], "float"]))
        if it is not None:
            cfg["item_type"] = it
        extra = [[], [1], [1, 2], [1, 2, 3], [1, 2, 3, 4], ["a"], [1, "a"], [True], [1.5], (1, 2), [None]]
    elif ptype in ("Selector", "ListSelector"):
        objs = draw(st.sampled_from([[1, 2], [1.0], [True], ["a", "b"], [None, 1], [[1, 2], [3]], [0, "0"], [D0]]))
        cfg["objects"] = [_enc(o) for o in objs]
        cos = draw(st.sampled_from([None, None, True, False]))
        if cos is not None:
            cfg["check_on_set"] = cos
        extra = list(objs) + [1, 1.0, True, "a", 0, False, [1, 2], (1, 2), "1", 3, D0, dt.datetime(2020, 1, 1)]
        # the objects may be declared as a dict and may be edited after the declaration: the constraint in force
        # at the moment of the assignment is membership in the *current* objects
        if draw(st.integers(0, 2)) == 0:
            cfg["objects_style"] = "dict"
            # the *labels* of a dict declaration (k0, k1, ...) are not values: assigning one is rejected like any non-member
            extra = ["k0", "k1", "k0"] + extra
        if draw(st.integers(0, 1)) == 0:
            edits = draw(st.lists(st.one_of(
                st.tuples(st.just("set"), st.integers(0, 2), st.sampled_from(_NEW_OBJS)),
                st.tuples(st.just("append"), st.sampled_from(_NEW_OBJS)),
                st.tuples(st.just("insert"), st.integers(0, 2), st.sampled_from(_NEW_OBJS)),
                st.tuples(st.just("pop"), st.integers(0, 2)),
                st.tuples(st.just("setkey"), st.sampled_from(["k0", "k1", "knew"]), st.sampled_from(_NEW_OBJS)),
            ), min_size=1, max_size=3))
            cfg["edits"] = [[e[0]] + [_enc(x) if i == len(e) - 2 and e[0] != "pop" else x for i, x in enumerate(e[1:])]
                            for e in edits]
            after, touched = _walk_edits(objs, cfg["edits"], cfg.get("objects_style", "list"))
            extra = touched + touched + extra
        if ptype == "ListSelector":
            extra = [[o] for o in extra] + [list(objs), [], objs[0], tuple(objs)]
    elif ptype == "ClassSelector":
        c = draw(st.sampled_from(["int", "str", ["int", "str"], "date", "float", "bool", "tuple"]))
        cfg["class_"] = c
        cfg["is_instance"] = draw(st.sampled_from([True, True, False]))
        extra = [1, True, 1.0, "a", D0, dt.datetime(2020, 1, 1), int, bool, str, dt.datetime, dt.date, (1,), float]
    elif ptype == "Color":
        cfg["allow_named"] = draw(st.booleans())
        extra = ["#fff", "fff", "#ffffff", "#ffff", "#ggg", "#FFF", "ff00aa", "#ff00a", "red", "notacolor", "", "#", 255]
    elif ptype in ("DateRange", "CalendarDateRange"):
        if draw(st.booleans()):
            cfg["bounds"] = [_enc(D0), _enc(D1)]
            cfg["inclusive"] = [draw(st.booleans()), draw(st.booleans())]
        extra = [(D0, D1), (D1, D0), (D0, D0), (dt.date(2019, 12, 31), D1), (D0, dt.date(2020, 1, 11)), [D0, D1], (D0,),
                 (D0, D1, D1), (dt.datetime(2020, 1, 1), dt.datetime(2020, 1, 10)), (D0, dt.datetime(2020, 1, 2)), (1, 2), ("a", "b")]
    elif ptype == "Date":
        if draw(st.booleans()):
            cfg["bounds"] = [_enc(dt.datetime(2020, 1, 1, 12)), _enc(D1)]
            cfg["inclusive"] = [draw(st.booleans()), draw(st.booleans())]
        extra = [D0, D1, dt.datetime(2020, 1, 1, 12), dt.datetime(2020, 1, 1, 11, 59), dt.datetime(2020, 1, 10), dt.datetime(2020, 1, 10, 0, 0, 1)]
    elif ptype == "Dict":
        extra = [{}, {"a": 1}, [], [("a", 1)], "a"]
    elif ptype == "Callable":
        extra = [_f, _g, int, len, 5, "f"]
    elif ptype == "Boolean":
        extra = [True, False, 0, 1, 1.0, "True", [], None]
    extra = list(extra) + [None, None]
    if extra and draw(st.integers(0, 3)) > 0:
        v = draw(st.sampled_from(extra))
    else:
        v = draw(_val)
    try:
        ev = _enc(v)
    except Exception:  # noqa: BLE001
        ev = ["n"]
    return {"ptype": ptype, "cfg": cfg, "v": ev}


def strategy(tier):
    return _case()


# ---------------------------------------------------------------------------
# execution

_CANDIDATE_DEFAULTS = [0, 5, 0.5, 1, 10, 3, "a", "ab", "01", "#fff", "", b"a", b"ab", b"", True, D0, dt.date(2020, 1, 5),
                       dt.datetime(2020, 1, 5), (), (0,), (0, 1), (0, 1, 2), (1, 2), (5, 6), (0.5, 0.5), (D0, D1),
                       (dt.date(2020, 1, 2), dt.date(2020, 1, 3)), [], [1], [1, 2], ["a"], [1.5], {}, _f, 1.0, 2, "b", [3], [[1, 2]],
                       [D0], [0], int, str, bool, dt.date, float, tuple, (1,), 1.5, [True], [1.0], [None], ["0"]]


def _valid_default(ptype, cfg):
    cands = _CANDIDATE_DEFAULTS + [12, 14.5, -4, -4.5, 16, 100, -100, (12, 13), (-4, -3), (14.5, 14.75), (100, 101)]
    b = cfg.get("bounds")
    if b is not None and ptype in ("Number", "Integer", "Range"):
        pts = [x for x in b if x is not None]
        mids = [sum(pts) / len(pts)] + [x + 1 for x in pts] + [x - 1 for x in pts] + [int(x) + 1 for x in pts] + [int(x) - 1 for x in pts]
        cands = cands + mids + [(m, m) for m in mids]
    for d in cands + list(cfg.get("objects", [])) + [[o] for o in cfg.get("objects", [])]:
        if callable(d) and ptype in ("Number", "Integer", "Magnitude"):
            continue
        try:
            if specs.verdict(ptype, cfg, d) is True:
                return d
        except Exception:  # noqa: BLE001
            continue
    return specs.__dict__.get("_none_")


def _json_native(v):
    if v is None or isinstance(v, (bool, str)):
        return True
    if isinstance(v, int):
        return True
    if isinstance(v, float):
        return math.isfinite(v)
    if isinstance(v, list):
        return all(_json_native(x) for x in v)
    return False


def _nontrivial(ptype, cfg, v):
    if v is None:
        return True
    if isinstance(v, bool) and ptype in ("Number", "Integer", "Magnitude", "Range", "NumericTuple"):
        return True
    if isinstance(v, float) and (math.isnan(v) or math.isinf(v)):
        return True
    b = cfg.get("bounds")
    if b is not None and not isinstance(v, (str, bytes)):
        elems = v if isinstance(v, tuple) else (v,)
        for x in elems:
            for y in b:
                if y is None:
                    continue
                try:
                    if x == y or (isinstance(x, (int, float)) and isinstance(y, (int, float)) and abs(float(x) - float(y)) <= 1):
                        return True
                except Exception:  # noqa: BLE001
                    pass
    if isinstance(v, (dt.date, dt.datetime)):
        return True
    if "length" in cfg and isinstance(v, (tuple, list)) and abs(len(v) - cfg["length"]) <= 1:
        return True
    if "objects" in cfg:
        try:
            return any(v == o and v is not o for o in cfg["objects"])
        except Exception:  # noqa: BLE001
            return False
    if "regex" in cfg and isinstance(v, (str, bytes)):
        return True
    if "list_bounds" in cfg and isinstance(v, list):
        return True
    return False


def execute(case):
    res = Result()
    ptype = case["ptype"]
    cfg = _cfg(case["cfg"])
    v = _decv(case["v"])
    PT = PTYPES[ptype]
    kw = _kwargs(ptype, cfg)
    res.label("type:" + ptype)
    want_decl = specs.verdict(ptype, cfg, v)
    edits = cfg.get("edits")
    cfg_decl = cfg
    if edits:
        # the objects are edited after the declaration: the later routes are judged against the objects then in force
        after, _ = _walk_edits(cfg["objects"], edits, cfg.get("objects_style", "list"))
        cfg = dict(cfg, objects=after, check_on_set=cfg.get("check_on_set", bool(cfg["objects"])))
        res.label("selector:objects_edited_after_declaration")
        if cfg_decl.get("objects_style") == "dict":
            res.label("selector:dict_declared_then_edited")
    elif cfg.get("objects_style") == "dict":
        res.label("selector:dict_declared")
    want = specs.verdict(ptype, cfg, v)
    hooked = "set_hook" in cfg
    if hooked:
        # every route except the declaration default stores hook(value): that is the value that must be valid
        want_set = specs.verdict(ptype, cfg, _hook(None, v))
        res.label("set_hook")
    else:
        want_set = want
    d0 = _valid_default(ptype, cfg_decl)
    if d0 is None and not (cfg.get("allow_None") and ptype != "Parameter"):
        if specs.verdict(ptype, cfg_decl, None) is not True:
            res.dontcare += 1
            return res
    desc = f"{ptype}({', '.join(f'{k}={x!r}' for k, x in kw.items())}) value {v!r}"

    def attempt(route, fn, expect, read, prev, same_identity=True):
        try:
            fn()
            raised = None
        except (ValueError, TypeError) as e:
            raised = e
        except Exception as e:  # noqa: BLE001
            res.fail("C01.wrong_exception_class", f"{desc} via {route}: raised {type(e).__name__}: {e}")
            return
        if expect is None:
            res.dontcare += 1
            return
        if expect and raised is not None:
            res.fail("C01.valid_value_rejected", f"{desc} via {route}: satisfies the constraints but raised {raised!r}")
        elif not expect and raised is None:
            res.fail("C01.invalid_value_accepted", f"{desc} via {route}: violates the constraints but was accepted"
                                                  + (f" (now reads {read()!r})" if read else ""))
        elif read is not None and not callable(v):
            got = read()
            if raised is None and same_identity and not callable(v) and got is not v:
                res.fail("C01.readback_after_accept", f"{desc} via {route}: accepted but reads back {got!r}")
            if raised is not None and got is not prev and not (got == prev and type(got) is type(prev)):
                res.fail("C01.readback_after_reject", f"{desc} via {route}: rejected but the value changed from {prev!r} to {got!r}")

    # ---- route: declaration default -----------------------------------------
    exp_default = True if v is None and ptype not in ("Selector", "ListSelector") else want_decl
    if ptype in ("Selector", "ListSelector") and v is None:
        exp_default = True          # a None default is always allowed (empty default)
    if ptype in ("Tuple", "NumericTuple", "XYCoordinates") and isinstance(v, tuple) and v:
        # documented: "The length is determined by the initial default value, if any"
        exp_default = specs.verdict(ptype, dict(cfg, length=len(v)), v) if ptype != "XYCoordinates" else \
            specs.verdict("NumericTuple", dict(cfg, length=len(v)), v)

    def decl():
        p = PT(default=v, **kw)
        type("P", (param.Parameterized,), {"x": p})
    attempt("declaration default", decl, exp_default, None, None)

    # ---- the other routes need a class with a valid default --------------------
    def mk():
        P = type("P", (param.Parameterized,), {"x": PT(default=d0, **kw)})
        if edits:
            _walk_edits(cfg_decl["objects"], edits, cfg_decl.get("objects_style", "list"), lambda: P.param.x.objects)
        return P
    try:
        mk()
    except Exception as e:  # noqa: BLE001
        res.fail("C01.valid_default_rejected", f"{desc}: the spec-valid default {d0!r} was rejected: {e!r}")
        return res
    holder = {}

    def ctor():
        holder["o"] = mk()(x=v)
    attempt("constructor", ctor, want_set, (lambda: holder["o"].x) if want_set and not hooked else None, None)

    o = mk()()
    prev = o.x
    attempt("instance attribute", lambda: setattr(o, "x", v), want_set, None if hooked else (lambda: o.x), prev)

    o2 = mk()()
    prev2 = o2.x
    attempt("param.update", lambda: o2.param.update(x=v), want_set, None if hooked else (lambda: o2.x), prev2)

    P3 = mk()
    prev3 = P3.x
    attempt("class attribute", lambda: setattr(P3, "x", v), want_set, None if hooked else (lambda: P3.x), prev3)

    if _json_native(v) and ptype not in ("Date", "CalendarDate", "DateRange", "CalendarDateRange", "Callable", "ClassSelector",
                                         "Selector", "ListSelector", "Parameter", "Bytes", "Color"):
        P4 = mk()
        # what the deserializer hands to the constructor: tuple types get their JSON list back as a tuple
        pv = tuple(v) if isinstance(v, list) and ptype in ("Tuple", "NumericTuple", "XYCoordinates", "Range") else v
        wantd = specs.verdict(ptype, cfg, _hook(None, pv) if hooked else pv)
        if isinstance(v, str) and ptype in ("Tuple", "NumericTuple", "XYCoordinates", "Range"):
            wantd = None      # a JSON string handed to a tuple type is split into characters: no claim

        def deser():
            kwargs = P4.param.deserialize_parameters(json.dumps({"x": v}))
            holder["d"] = P4(**kwargs)
        attempt("deserialization", deser, wantd, None, None)
        res.label("route:deserialization")

    # ---- route: the identical object assigned again after it stopped being valid ---------------------------------
    # "every value an assignment installs satisfied the constraints in force at that moment": re-assigning the very
    # object the parameter holds is still an assignment
    o5 = mk()()
    cur = o5.x
    made_invalid = None
    try:
        if ptype in ("Number", "Integer") and isinstance(cur, (int, float)) and not isinstance(cur, bool):
            o5.param.x.bounds = (cur + 1, cur + 2)
            made_invalid = "bounds tightened on the instance Parameter"
        elif ptype == "String" and isinstance(cur, str):
            o5.param.x.regex = "^never-matches-\\d{9}$"
            made_invalid = "regex tightened on the instance Parameter"
        elif ptype == "List" and isinstance(cur, list) and cfg.get("item_type") is not None:
            cur.append(object())
            made_invalid = "held list mutated in place"
        elif ptype == "List" and isinstance(cur, list) and cfg.get("list_bounds") is not None and cfg["list_bounds"][1] is not None:
            cur.extend([cur[0] if cur else 0] * (cfg["list_bounds"][1] + 1 - len(cur)))
            made_invalid = "held list grown in place beyond its maximum length"
    except (ValueError, TypeError):
        made_invalid = None
    if made_invalid and cfg.get("set_hook"):
        made_invalid = None       # (what is validated is what the set_hook makes of the object, which may well be valid)
    if made_invalid:
        res.label("route:reassign_identical_after_invalidation")
        for how in ("attr", "update"):
            try:
                if how == "attr":
                    o5.x = cur
                else:
                    o5.param.update(x=cur)
            except (ValueError, TypeError):
                continue
            res.fail("C01.invalid_value_accepted", f"{desc}: {made_invalid}; assigning the identical, now invalid object {cur!r} "
                                                  f"again via {how} was accepted")
            break

    res.nontrivial = _nontrivial(ptype, cfg, v)
    if want is True:
        res.label("verdict:accept")
    elif want is False:
        res.label("verdict:reject")
    else:
        res.label("verdict:no_claim")
    return res
