"""C03 - each change reaches each watcher exactly once with true old/new values.

Oracle A: a recursive reference dispatcher transcribed from the statement (exactly once, ascending
precedence then registration order, depth-first cascades); the recorded trace must equal the model
trace (identity of old/new objects, event type, object state at callback entry).
Oracle B: clause predicates for ops in which a queued watcher with a script of its own runs.
"""
from hypothesis import strategies as st

from vlib.core import Result
from vlib.dispatch import NAMES, NPOOL, PNAMES, World, equal, pool_value, val_strategy, watcher_spec

ID = "C03"
LEVEL = "exploration"
RULE = ("Hypothesis-generated watcher configurations (1-6 watchers on two instances and the class: any subset of a,b,c, "
        "value or slot (bounds/doc) watchers, onlychanged, queued, precedence 0-2, args/kwargs mode, scripted acyclic "
        "callbacks that assign) x programs (<=10 ops: set by attribute or single-key update, slot set, class-level set, "
        "trigger, unwatch, re-watch, class-level sets through a subclass that inherits the parameters, with a class-level watcher registered and removed through that subclass) over an equality-trap value pool (0/1/True/1.0/NaN/None/str/bytes/Fraction/dates/"
        "nested containers/dict key order); oracle A = reference dispatcher, exact trace equality; oracle B = clause "
        "predicates when a queued scripted watcher runs. Non-trivial = an assignment reaches >=2 watchers of different "
        "precedence, or a callback cascades, or an equal-but-not-identical value meets a changes-only watcher, or a "
        "watcher is re-registered; distinct = case hash. The parameter c may be declared per_instance=False (one Parameter object for the class and all instances, with class- and instance-level watchers of it side by side and one of them removed); the enumerated table also assigns the identical object twice (a NaN is not equal to itself) by attribute and update, on an instance and on the class.")
ASSUMPTIONS = [
    "equality for changes-only filtering is Python == on the stated value pool (numbers, str, bytes, None, dates, "
    "same-type containers of these); no sets, no user-defined __eq__, no NaN nested in containers",
    "slot watchers are generated with precedence 0 only (the statement orders value watchers)",
    "trigger ops that would reach a watcher with a script are skipped (type/filtering of cascades under trigger is not stated)",
    "read-only inspection of param._events/_state_watchers after each top-level op (nothing may be left queued)",
]
SIZES = {"quick": 2500, "thorough": 15000}

def _ops(fam):
    _val = val_strategy(fam)
    return st.one_of(
        st.tuples(st.just("set"), st.integers(0, 2), st.integers(0, 2), _val, st.sampled_from(["attr", "attr", "update"])),
        st.tuples(st.just("set"), st.integers(0, 2), st.integers(0, 2), _val, st.sampled_from(["attr", "attr", "update"])),
        st.tuples(st.just("set"), st.integers(0, 2), st.integers(0, 2), _val, st.just("attr")),
        st.tuples(st.just("slot"), st.integers(0, 2), st.sampled_from(["bounds", "doc"]), st.integers(0, 3)),
        st.tuples(st.just("trigger"), st.integers(0, 2), st.lists(st.integers(0, 2), min_size=1, max_size=3, unique=True)),
        st.tuples(st.just("unwatch"), st.integers(0, 5)),
        st.tuples(st.just("rewatch"), st.integers(0, 5)),
        # class-level assignment through a subclass that inherits the parameter
        st.tuples(st.just("subset"), st.integers(0, 2), _val),
        # the very object assigned by an earlier operation is assigned again (to any target / parameter) ...
        st.tuples(st.just("reuse"), st.integers(0, 2), st.integers(0, 2), st.integers(0, 9)),
        # ... possibly after it was mutated in place (lists get 2 appended, dicts a key 'j': 2)
        st.tuples(st.just("mutate"), st.integers(0, 9)),
    )


@st.composite
def _case(draw):
    fam = draw(st.integers(0, 4))
    ws = draw(st.lists(watcher_spec(fam=fam), min_size=1, max_size=6))
    if draw(st.integers(0, 3)) == 0:
        # the very same callback registered a second time with identical options
        j = draw(st.integers(0, len(ws) - 1))
        ws.append(dict(ws[j], dup_of=j))
    if draw(st.integers(0, 1)) == 0:
        # one callback unwatches a watcher (itself, more often than not, or another one) the first time it runs
        k = draw(st.integers(0, len(ws) - 1))
        if ws[k].get("dup_of") is None and ws[k]["what"] == "value":
            ws[k]["unwatch_on_call"] = draw(st.sampled_from([k, k, draw(st.integers(0, len(ws) - 1))]))
            if draw(st.booleans()):
                # ... and a sibling registered right after it on the same parameter with the same precedence
                ws.insert(k + 1, dict(ws[k], script=[], unwatch_on_call=None, dup_of=None))
                for w in ws:
                    for key in ("unwatch_on_call", "dup_of"):
                        if w.get(key) is not None and w[key] > k and w is not ws[k]:
                            w[key] += 1
    for w in ws:
        if not w["script"] and w.get("unwatch_on_call") is None and w.get("dup_of") is None and draw(st.integers(0, 7)) == 0:
            w["raise_skip"] = True          # the callback ends by raising param.Skip: everyone else is served as usual
    ops = draw(st.lists(_ops(fam), min_size=1, max_size=10))
    if draw(st.integers(0, 2)) == 0:
        # a class-level watcher that is registered (and later removed) through the subclass; whom the class / subclass
        # assignments reach while it is registered is not claimed, only that it is never called once removed
        ws.append({"target": 2, "names": sorted(draw(st.sets(st.integers(0, 2), min_size=1, max_size=2))), "what": "value",
                   "onlychanged": False, "queued": False, "precedence": draw(st.integers(0, 2)), "mode": "args", "script": [],
                   "via_subclass": True})
        k = len(ws) - 1
        ops = list(ops)
        n0 = ws[k]["names"][0]
        ops.insert(draw(st.integers(0, len(ops))), ("subset", n0, draw(val_strategy(fam))))
        at = draw(st.integers(0, len(ops)))
        ops.insert(at, ("unwatch", k + 6 * 100))           # (k + 600) % len(ws) == k whenever len(ws) divides 600: resolved below
        ops[at] = ("unwatch_exact", k)
        ops.insert(draw(st.integers(at + 1, len(ops))), ("set", 2, n0, draw(val_strategy(fam)), "attr"))
        ops.insert(draw(st.integers(at + 1, len(ops))), ("subset", n0, draw(val_strategy(fam))))
    if fam in (2, 3) and draw(st.integers(0, 3)) == 0:
        # aliasing motif: two holders share one container L; another container N (one in-place edit away from L) is given
        # to the first, edited in place until it equals L, then given to the second
        n_ = draw(st.integers(0, 2))
        L, N = (24, 16) if fam == 2 else (27, 25)        # [1, 2] / [1]   and   {"k": 1, "j": 2} / {"k": 1}
        ta, tb = draw(st.sampled_from([(0, 1), (1, 0), (0, 2), (2, 0)]))
        ops = [("set", ta, n_, L, "attr"), ("reuse", tb, n_, 0), ("set", ta, n_, N, "attr"), ("mutate", 1), ("reuse", tb, n_, 1)] + list(ops)
    case = {"fam": fam, "watchers": ws, "ops": [list(o) for o in ops]}
    if draw(st.integers(0, 2)) == 0:
        # c is declared per_instance=False: one Parameter object serves the class and every instance (the instance- and
        # class-level watchers are kept apart all the same)
        case["shared_c"] = True
        if draw(st.booleans()):
            # a class-level and an instance-level watcher of c; the instance-level one is removed, then the instance is assigned
            ti = draw(st.integers(0, 1))
            base = {"what": "value", "onlychanged": draw(st.booleans()), "queued": False, "precedence": 0, "mode": "args", "script": []}
            ws.append(dict(base, target=2, names=[2]))
            ws.append(dict(base, target=ti, names=[2]))
            ops = case["ops"]
            at = draw(st.integers(0, len(ops)))
            ops.insert(at, ["unwatch_exact", len(ws) - 1])
            ops.insert(draw(st.integers(at + 1, len(ops))), ["set", ti, 2, draw(val_strategy(fam)), "attr"])
    return case


def strategy(tier):
    return _case()


EXHAUSTIVE_NOTE = ("change-detection table: every ordered pair (old, new) of pool values within a family (quick) / of the "
                   "whole pool (thorough) assigned in sequence under one changes-only and one unfiltered watcher")


def enumerate_cases(tier):
    from vlib.dispatch import _FAM_RANGES
    ws = [{"target": 0, "names": [0], "what": "value", "onlychanged": True, "queued": False, "precedence": 0,
           "mode": "args", "script": []},
          {"target": 0, "names": [0], "what": "value", "onlychanged": False, "queued": False, "precedence": 1,
           "mode": "args", "script": []}]
    if tier == "quick":
        pairs = [(i, j) for lo, hi in _FAM_RANGES for i in range(lo, hi + 1) for j in range(lo, hi + 1)]
    else:
        pairs = [(i, j) for i in range(NPOOL) for j in range(NPOOL)]
    for i, j in pairs:
        yield {"fam": 0, "watchers": ws, "ops": [["set", 0, 0, i, "attr"], ["set", 0, 0, j, "attr"]]}
    # ... and the identical object assigned twice (a NaN is not equal to itself: still a change), by attribute / update,
    # on an instance / the class, with a per-instance or a class-wide (per_instance=False) Parameter object
    for i in range(NPOOL):
        for t in (0, 2):
            for shared in (False, True):
                yield {"fam": 0, "watchers": [dict(w, target=t, names=[2]) for w in ws], "shared_c": shared,
                       "ops": [["set", t, 2, i, "attr"], ["reuse", t, 2, 0], ["set", t, 2, i, "update"], ["reuse", t, 2, 1]]}


class Model:
    """The statement, transcribed."""

    def __init__(self, specs, script_vals):
        self.specs = specs
        self.script_vals = script_vals
        self.active = [True] * len(specs)
        self.order = list(range(len(specs)))      # registration order (re-watch moves to the end)
        self.cls_vals = {n: 0 for n in NAMES}
        self.inst_vals = [{}, {}]
        self.slots = [{"bounds": (0, 10), "doc": "d0"} for _ in range(3)]
        self.inst_slot_own = [set(), set()]
        self.trace = []
        self.queued_scripted_ran = False
        self.labels = set()
        self.unwatched_in_cb = {}

    def value(self, t, n):
        if t == 2:
            return self.cls_vals[n]
        return self.inst_vals[t].get(n, self.cls_vals[n])

    def snapshot(self, t):
        return tuple(self.value(t, n) for n in NAMES)

    def watchers_for(self, t, pname, what):
        ws = [w for w in self.order if self.active[w] and self.specs[w]["target"] == t and not self.specs[w].get("via_subclass")
              and self.specs[w]["what"] == what and pname in [PNAMES[i] for i in self.specs[w]["names"]]]
        if what == "value":
            ws = sorted(ws, key=lambda w: self.specs[w]["precedence"])    # stable: ties keep registration order
        return ws

    def assign(self, t, n, v, scripted=None):
        self.trace.append(("assign", t, n, v, scripted))
        old = self.value(t, n)
        if t == 2:
            self.cls_vals[n] = v
        else:
            self.inst_vals[t][n] = v
        self.deliver(t, n, "value", old, v)

    def deliver(self, t, pname, what, old, new):
        ws = self.watchers_for(t, pname, what)
        if len({self.specs[w]["precedence"] for w in ws}) >= 2:
            self.labels.add("multi_precedence")
        for w in ws:
            sp = self.specs[w]
            eq = equal(old, new)
            if sp["onlychanged"]:
                if eq is None:
                    self.labels.add("equality_unknown")
                    raise Unknown()
                if eq:
                    if old is not new:
                        self.labels.add("equal_not_identical_skipped")
                    continue
            typ = "changed" if sp["onlychanged"] else "set"
            self.invoke(w, [(pname, old, new, typ)], t)

    def invoke(self, w, events, t):
        sp = self.specs[w]
        if sp["mode"] == "kwargs":
            rec = [(n, None, new, None) for n, _o, new, _t in events]
        else:
            rec = list(events)
        a = sp.get("dup_of") if sp.get("dup_of") is not None else w     # a duplicate registration shares the callback
        self.trace.append(("enter", a, rec, self.snapshot(t)))
        uw = sp.get("unwatch_on_call")
        if uw is not None and not self.unwatched_in_cb.get(w) and uw < len(self.specs) and self.active[uw] \
                and self.specs[uw].get("dup_of") is None and not any(x.get("dup_of") == uw for x in self.specs):
            # removed while the event is in flight: the watchers registered when the assignment was made are still
            # called for it (the dispatch works on the list as it was), later assignments no longer reach it
            self.unwatched_in_cb[w] = True
            self.trace.append(("unwatch", w, uw))
            self.active[uw] = False
            self.labels.add("unwatch_inside_callback")
        if sp["script"]:
            self.labels.add("cascade")
            if sp["queued"]:
                self.queued_scripted_ran = True
        for k, (n, _v) in enumerate(sp["script"]):
            self.assign(t, NAMES[n], self.script_vals[a][k], scripted=a)
        self.trace.append(("exit", a))

    def trigger(self, t, names):
        # trigger re-assigns the current value: an instance that followed the class default now holds
        # the value itself (the statement makes no claim either way; mirrored so later steps stay sound)
        if t != 2:
            for n in names:
                self.inst_vals[t][n] = self.value(t, n)
        order = []
        for n in names:
            for w in self.watchers_for(t, n, "value"):
                if w not in order:
                    order.append(w)
        order = sorted(order, key=lambda w: self.specs[w]["precedence"])
        for w in order:
            evs = []
            for i in self.specs[w]["names"]:
                pn = PNAMES[i]
                if pn in names:
                    cur = self.value(t, pn)
                    evs.append((pn, cur, cur, "triggered"))
            self.invoke(w, evs, t)


class Unknown(Exception):
    pass


def _same(a, b):
    """Trace entries equal, with identity for value objects."""
    if a[0] != b[0] or len(a) != len(b):
        return False
    if a[0] == "assign":
        return a[1] == b[1] and a[2] == b[2] and a[3] is b[3] and a[4] == b[4]
    if a[0] == "exit":
        return a[1] == b[1]
    if a[0] == "unwatch":
        return a[1:] == b[1:]
    if a[0] == "enter":
        if a[1] != b[1] or len(a[2]) != len(b[2]):
            return False
        for (n1, o1, v1, t1), (n2, o2, v2, t2) in zip(a[2], b[2]):
            if n1 != n2 or t1 != t2:
                return False
            if n1 == "num":      # slot events carry slot values (tuples/strings): compare by equality
                if o1 != o2 or v1 != v2:
                    return False
            elif o1 is not o2 or v1 is not v2:
                return False
        return len(a[3]) == len(b[3]) and all(x is y for x, y in zip(a[3], b[3]))
    return a == b


def _fmt(tr):
    out = []
    for e in tr:
        if e[0] == "assign":
            out.append(f"assign(t{e[1]}.{e[2]}={e[3]!r}{' by w%d' % e[4] if e[4] is not None else ''})")
        elif e[0] == "enter":
            out.append(f"enter(w{e[1]} {[(n, o, v, t) for n, o, v, t in e[2]]!r} sees {e[3]!r})")
        elif e[0] == "unwatch":
            out.append(f"w{e[1]} unwatches w{e[2]}")
        else:
            out.append(f"{e[0]}(w{e[1]})")
    return " ; ".join(out)


def execute(case):
    res = Result()
    specs = case["watchers"]
    world = World(specs, shared_c=bool(case.get("shared_c")))
    model = Model(specs, world.script_vals)
    rewatched = False
    if case.get("shared_c"):
        res.label("class_wide_parameter_object")
    assigned = []          # the objects assigned by the `set` operations so far (for `reuse` / `mutate`)
    dup_related = set()
    for w, sp in enumerate(specs):
        if sp.get("dup_of") is not None:
            dup_related.update((w, sp["dup_of"]))
            res.label("duplicate_registration")
    for step, op in enumerate(case["ops"]):
        kind = op[0]
        tag = f"op{step}:{op!r}"
        res.label(f"op:{kind}")
        world.trace = []
        model.trace = []
        model.queued_scripted_ran = False
        try:
            if kind == "mutate":
                if assigned:
                    o_ = assigned[op[1] % len(assigned)]
                    if isinstance(o_, list):
                        o_.append(2)
                        res.label("in_place_mutation_of_assigned_object")
                    elif isinstance(o_, dict):
                        o_["j"] = 2
                        res.label("in_place_mutation_of_assigned_object")
                continue
            if kind in ("set", "reuse"):
                if kind == "reuse":
                    if not assigned:
                        continue
                    t, n, v, route = op[1], NAMES[op[2]], assigned[op[3] % len(assigned)], "attr"
                    res.label("same_object_assigned_again")
                else:
                    t, n, v, route = op[1], NAMES[op[2]], pool_value(op[3]), op[4]
                    assigned.append(v)
                if route == "update":
                    world.trace.append(("assign", t, n, v, None))
                    world.targets[t].param.update(**{n: v})
                else:
                    world.assign(t, n, v)
                model.assign(t, n, v)
            elif kind == "slot":
                t, which, k = op[1], op[2], op[3]
                newv = (0, 10 + k) if which == "bounds" else f"d{k}"
                setattr(world.targets[t].param.num, which, newv)
                # model: class-level slot change is seen by instances that have no copy of their own;
                # to stay independent of the lazy copy, only the *target's own* watchers are modelled
                old = model.slots[t][which]
                model.slots[t][which] = newv
                if t == 2:
                    for i in (0, 1):
                        if which not in model.inst_slot_own[i] and not _has_copy(world, i):
                            model.slots[i][which] = newv
                else:
                    model.inst_slot_own[t].add(which)
                model.deliver(t, "num", which, old, newv)
            elif kind == "trigger":
                t = op[1]
                names = [NAMES[i] for i in op[2]]
                reached = [w for n in names for w in model.watchers_for(t, n, "value")]
                if any(specs[w]["script"] for w in reached):
                    res.dontcare += 1
                    res.label("trigger_skipped_scripted")
                    continue
                world.targets[t].param.trigger(*names)
                model.trigger(t, names)
                res.label("trigger_run")
            elif kind == "subset":
                n, v = NAMES[op[1]], pool_value(op[2])
                if any(sp["target"] == 2 and not sp.get("via_subclass") and (sp["script"] or sp.get("unwatch_on_call") is not None)
                       for sp in specs):
                    # whether the class's own watchers are reached by an assignment through the subclass is not claimed, so
                    # they must not have effects of their own here
                    res.dontcare += 1
                    continue
                setattr(world.W2, n, v)
                res.label("class_level_set_through_subclass")
                _removed_called(res, tag, world, model)
                continue
            elif kind in ("unwatch", "unwatch_exact"):
                w = op[1] % len(specs)
                if w in dup_related:
                    continue     # equal Watcher tuples cannot be told apart by unwatch: not exercised
                if model.active[w]:
                    world.unregister(w)
                    model.active[w] = False
                continue
            elif kind == "rewatch":
                w = op[1] % len(specs)
                if w in dup_related:
                    continue
                if not model.active[w]:
                    world.register(w)
                    model.active[w] = True
                    model.order.remove(w)
                    model.order.append(w)
                    rewatched = True
                    res.label("rewatched")
                continue
        except Unknown:
            res.dontcare += 1
            break
        # the slot old value an instance sees may come from a lazily created copy: re-sync the model
        # slot values from reality only for instances (never used to judge a delivery already made)
        _removed_called(res, tag, world, model)
        via = {w for w, sp in enumerate(specs) if sp.get("via_subclass")}
        real = [e for e in world.trace if not (e[0] in ("enter", "exit") and e[1] in via)]
        want = model.trace
        if model.queued_scripted_ran:
            res.label("oracle_B")
            _oracle_b(res, tag, world, model, real, specs)
        else:
            res.label("oracle_A")
            if len(real) != len(want) or not all(_same(a, b) for a, b in zip(real, want)):
                k = 0
                while k < min(len(real), len(want)) and _same(real[k], want[k]):
                    k += 1
                clause = "C03.trace_mismatch"
                if k < len(real) and k < len(want) and real[k][0] == "enter" and want[k][0] == "enter":
                    if real[k][1] != want[k][1]:
                        clause = "C03.order_or_extra_delivery"
                    elif [x[3] for x in real[k][2]] != [x[3] for x in want[k][2]]:
                        clause = "C03.event_type"
                    elif real[k][3] is not want[k][3] and not all(x is y for x, y in zip(real[k][3], want[k][3])):
                        clause = "C03.state_at_entry"
                    else:
                        clause = "C03.event_old_new"
                elif k >= len(real) or (k < len(want) and want[k][0] == "enter" and real[k][0] != "enter"):
                    clause = "C03.missing_delivery"
                elif k >= len(want) or real[k][0] == "enter":
                    clause = "C03.extra_delivery"
                res.fail(clause, f"{tag}: first difference at trace position {k}\n   real : {_fmt(real)}\n   model: {_fmt(want)}")
                break
        for ti, t in enumerate(world.targets):
            if t.param._events or t.param._state_watchers:
                res.fail("C03.left_queued", f"{tag}: events still queued on target {ti} after the operation returned: "
                                            f"{t.param._events!r}")
        if model.queued_scripted_ran:
            # the order in which a queued callback's own assignments take effect relative to other cascades
            # is not fixed by the statement: adopt the real values and go on
            for n in NAMES:
                model.cls_vals[n] = getattr(world.W, n)
            for ti in (0, 1):
                own = world.targets[ti]._param__private.values
                model.inst_vals[ti] = {n: own[n] for n in NAMES if n in own}
        # values must agree
        for ti in range(3):
            for n in NAMES:
                if getattr(world.targets[ti], n) is not model.value(ti, n):
                    res.fail("C03.final_value", f"{tag}: t{ti}.{n} is {getattr(world.targets[ti], n)!r}, model "
                                                f"{model.value(ti, n)!r}")
        if res.violations:
            break
    for l in model.labels:
        res.label(l)
    res.nontrivial = bool(model.labels & {"multi_precedence", "cascade", "equal_not_identical_skipped"}) or rewatched
    return res


def _removed_called(res, tag, world, model):
    """a watcher removed before an assignment is not called for it"""
    for e in world.trace:
        if e[0] == "enter" and not model.active[e[1]] and not model.unwatched_in_cb:
            res.fail("C03.removed_watcher_called", f"{tag}: watcher w{e[1]} was removed before this assignment and was still called"
                                                   f"\n   real : {_fmt(world.trace)}")
            return


def _has_copy(world, i):
    return "num" in world.targets[i]._param__private.params


def _oracle_b(res, tag, world, model, real, specs):
    # (f1) nothing is dispatched between entry and exit of a queued watcher
    depth_q = []
    for e in real:
        if e[0] == "enter":
            if depth_q:
                res.fail("C03.queued_dispatched_while_running",
                         f"{tag}: watcher w{e[1]} entered while queued watcher w{depth_q[-1]} was running\n   real: {_fmt(real)}")
                return
            if specs[e[1]]["queued"]:
                depth_q.append(e[1])
        elif e[0] == "exit" and depth_q and depth_q[-1] == e[1]:
            depth_q.pop()
    # (f2) every assignment is delivered to each unfiltered watcher at least once afterwards, the last
    #      delivery for a name carrying the final value; balanced enter/exit
    enters = [i for i, e in enumerate(real) if e[0] == "enter"]
    exits = [i for i, e in enumerate(real) if e[0] == "exit"]
    if len(enters) != len(exits):
        res.fail("C03.unbalanced", f"{tag}: enter/exit unbalanced\n   real: {_fmt(real)}")
        return
    assigns = [(i, e) for i, e in enumerate(real) if e[0] == "assign"]
    for i, (_k, t, n, v, _s) in assigns:
        for w in model.watchers_for(t, n, "value"):
            if specs[w]["onlychanged"]:
                continue
            a = specs[w].get("dup_of") if specs[w].get("dup_of") is not None else w
            later = [real[j] for j in enters if j > i and real[j][1] == a and any(r[0] == n for r in real[j][2])]
            # coalescing may replace the delivery of this assignment by that of a later assignment to the same
            # parameter, and a queued delivery may arrive after the value moved on: require a later delivery whose
            # `new` is the object installed by this or a later assignment to the same parameter
            later_vals = [e[3] for j, e in assigns if j >= i and e[1] == t and e[2] == n]
            ok = False
            for d in later:
                for r in d[2]:
                    if r[0] == n and any(r[2] is lv for lv in later_vals):
                        ok = True
            if not ok:
                res.fail("C03.missing_delivery", f"{tag}: assignment t{t}.{n}={v!r} never reached unfiltered watcher w{w} "
                                                 f"(no later delivery carrying its or a later value)\n   real: {_fmt(real)}")
                return
