"""C17 - copies and pickles are faithful and independent."""
import copy
import pickle

from hypothesis import strategies as st

from param.parameterized import batch_call_watchers, discard_events
from vlib import models_static as ms
from vlib.core import Result

ID = "C17"
LEVEL = "exploration"
RULE = ("Hypothesis-generated pre-copy histories (<=8 ops: sets, single- and multi-key updates, in-place mutations of list/dict "
        "values, per-instance Parameter edits (bounds, Selector objects incl. unlabelled additions to dict-declared objects), sub-object attach/replace/detach and leaf sets, a user "
        "watcher, a watcher that is a functools.partial of one of the object's own methods, ordinary-attribute writes; the classes customise their state the usual way: __getstate__ drops an attribute, __setstate__ puts it back) x copy mechanism (deepcopy, pickle protocols 2-5) x diverging post-copy histories "
        "(<=8 ops, each aimed at the original, the copy or an optional second copy - of the copy or of the original -, optionally while a batch / discard_events context is open on another of these objects) over importable classes with depends(watch=True) methods on a value, "
        "on two values, on a Parameter attribute and (class Par) on a parameter of the attached sub-object; oracle = the copy "
        "succeeds, equality without shared mutable state at copy time, each side equals its own model afterwards, and each "
        "operation adds exactly its expected invocations to the log of the side it acted on and nothing to the other. "
        "Non-trivial = the pre-copy history created a per-instance Parameter copy, attached a sub-object or mutated a container "
        "in place, and the post-copy history touches both sides; distinct = case hash. Round 5: a subclass keeping an attribute in a slot of its own (an ancestor instance copied earlier or not), user watchers registered against the order of their precedences (their order is asserted on every side), the class default reassigned after the copies exist while the original holds an identical value of its own.")
ASSUMPTIONS = [
    "log entries produced by one operation are compared as a multiset (the relative order of different methods is not claimed)",
    "importable model classes vlib.models_static.Par / ParNoSubDep / CSub",
]
SIZES = {"quick": 1500, "thorough": 10000}

_k = st.integers(2, 30)
_ops = st.one_of(
    st.tuples(st.just("set_a"), _k), st.tuples(st.just("set_a"), _k), st.tuples(st.just("set_free"), _k),
    st.tuples(st.just("update2"), _k), st.tuples(st.just("mut_l"), _k), st.tuples(st.just("mut_d"), _k),
    st.tuples(st.just("bounds"), _k), st.tuples(st.just("objects"), _k), st.tuples(st.just("attach"), _k),
    st.tuples(st.just("detach"),), st.tuples(st.just("sub_x"), _k), st.tuples(st.just("sub_y"), _k),
    st.tuples(st.just("watch"),), st.tuples(st.just("extra"), _k), st.tuples(st.just("set_s"), st.integers(1, 3)),
    st.tuples(st.just("sd_append"), _k), st.tuples(st.just("sd_setval"), _k), st.tuples(st.just("sd_setkey"), _k),
    # the default of the open-ended selector is taken out of its objects on this instance
    st.tuples(st.just("sd_remove_default"),),
    # a watcher whose callback is functools.partial(<a method of the object itself>, tag)
    st.tuples(st.just("watch_partial"), _k),
).map(list)


@st.composite
def _case(draw):
    case = draw(_case0())
    if draw(st.integers(0, 3)) == 0:
        # two user watchers registered against the order of their precedences before the copy; the parameter is assigned on
        # the copy (and on the original) afterwards
        k1 = draw(st.integers(2, 15))
        case["pre"] = case["pre"] + [["watch_partial", k1], ["watch_partial", draw(st.integers(k1 + 1, 30))]]
        case["post"] = [[1, ["set_a", draw(_k)], None], [0, ["set_a", draw(_k)], None]] + case["post"]
    return case


@st.composite
def _case0(draw):
    return {
        "cls": draw(st.sampled_from(["ParNoSubDep", "ParNoSubDep", "Par", "ParSlots"])),
        # an instance of the parent class was copied earlier in the process (only matters for the subclass with slots)
        "ancestor_copied_first": draw(st.booleans()),
        # the original explicitly holds the value that is the class default; after the copies were made and used, the class
        # default is reassigned: neither the original nor a copy follows it
        "cls_default_after": draw(st.sampled_from([False, False, True])),
        "pre": draw(st.lists(_ops, max_size=8)),
        "how": draw(st.sampled_from(["deepcopy", "pickle2", "pickle3", "pickle4", "pickle5", "deepcopy"])),
        # each post-copy operation is aimed at one object (0 original, 1 copy, 2 second copy if there is one) and may run
        # while a batch / discard_events context is open on *another* of the objects
        "post": draw(st.lists(st.tuples(st.integers(0, 2), _ops, st.sampled_from([None, None, "batch_other", "discard_other"])).map(list),
                              max_size=8)),
        "second": draw(st.sampled_from([None, "copy_of_copy", "another_copy"])),
        "how2": draw(st.sampled_from(["deepcopy", "pickle2", "pickle5"])),
    }


def strategy(tier):
    return _case()


class Side:
    """Model of one object."""

    def __init__(self, has_subdep):
        self.a, self.free, self.l, self.d = 1, None, [1], {"k": 1}
        self.s, self.bounds, self.objects = 1, (0, 100), [1, 2, 3]
        self.sd, self.sd_objects = 1, [1, 2]
        self.sub = None            # None or [x, y]
        self.extra = {"n": 0}
        self.user_watchers = 0
        self.partials = []
        self.has_subdep = has_subdep

    def clone(self):
        c = Side(self.has_subdep)
        c.__dict__.update(copy.deepcopy(self.__dict__))
        return c


def _apply(op, obj, m, marks):
    """Apply op to the real object and to the model; return the multiset (sorted list) of expected new log entries,
    or None when no claim is made about the entries."""
    k = op[0]
    exp = []
    if k == "set_a":
        v = op[1]
        changed = v != m.a
        obj.a = v
        m.a = v
        if changed:
            exp += [("on_a", v), ("on_a_free", v, m.free)] + [("user_cb", "a", v)] * m.user_watchers
            exp += [("note", tag_, v) for tag_ in m.partials]
    elif k == "set_free":
        v = op[1]
        changed = v != m.free
        obj.free = v
        m.free = v
        if changed:
            exp += [("on_a_free", m.a, v)]
    elif k == "update2":
        v = op[1]
        ca, cf = v != m.a, (v + 100) != m.free
        obj.param.update(a=v, free=v + 100)
        m.a, m.free = v, v + 100
        if ca:
            exp += [("on_a", v)] + [("user_cb", "a", v)] * m.user_watchers + [("note", tag_, v) for tag_ in m.partials]
        if ca or cf:
            exp += [("on_a_free", v, v + 100)]       # exactly once for the batch
        marks.add("multi_param_batch")
    elif k == "mut_l":
        obj.l.append(op[1])
        m.l.append(op[1])
        marks.add("inplace_mutation")
    elif k == "mut_d":
        obj.d[f"k{op[1]}"] = op[1]
        m.d[f"k{op[1]}"] = op[1]
        marks.add("inplace_mutation")
    elif k == "bounds":
        nb = (0, 100 + op[1])
        changed = nb != m.bounds
        obj.param.a.bounds = nb
        m.bounds = nb
        if changed:
            exp += [("on_bounds", nb)]
        marks.add("per_instance_parameter")
    elif k == "objects":
        v = 10 + op[1]
        if v not in m.objects:
            obj.param.s.objects.append(v)
            m.objects.append(v)
        marks.add("per_instance_parameter")
    elif k == "set_s":
        obj.s = op[1]
        m.s = op[1]
    elif k == "sd_append":
        v = 50 + op[1]
        if v not in m.sd_objects:
            obj.param.sd.objects.append(v)          # list-style: no label
            m.sd_objects.append(v)
        marks.add("per_instance_parameter")
        marks.add("unlabelled_selector_object")
    elif k == "sd_setval":
        v = 50 + op[1]
        obj.sd = v                                  # check_on_set=False: joins the objects, without a label
        m.sd = v
        if v not in m.sd_objects:
            m.sd_objects.append(v)
        marks.add("per_instance_parameter")
        marks.add("unlabelled_selector_object")
    elif k == "sd_remove_default":
        if 1 in m.sd_objects and m.sd != 1:
            obj.param.sd.objects.remove(1)
            m.sd_objects.remove(1)
            marks.add("per_instance_parameter")
            marks.add("selector_default_removed_from_objects")
    elif k == "watch_partial":
        import functools
        tag_ = f"t{op[1]}"
        if tag_ not in m.partials:
            # (registered in whatever order the tags come, called in the order of their precedence: the higher the tag, the earlier)
            obj.param.watch(functools.partial(obj.note, tag_), ["a"], precedence=40 - op[1])
            m.partials.append(tag_)
            marks.add("partial_of_own_method_as_watcher")
    elif k == "sd_setkey":
        v = 50 + op[1]
        if v not in m.sd_objects:
            obj.param.sd.objects[f"key{v}"] = v
            m.sd_objects.append(v)
        marks.add("per_instance_parameter")
    elif k == "attach":
        x = op[1]
        old = m.sub
        obj.sub = ms.CSub(x=x, y=0)
        m.sub = [x, 0]
        marks.add("sub_object")
        if m.has_subdep:
            if old is not None and old[0] != x:
                exp += [("on_subx", x)]
            elif old is None:
                return None      # path did not resolve before: no claim (C07)
    elif k == "detach":
        old = m.sub
        obj.sub = None
        m.sub = None
        if m.has_subdep and old is not None:
            return None
    elif k == "sub_x":
        if m.sub is None:
            return []
        changed = op[1] != m.sub[0]
        obj.sub.x = op[1]
        m.sub[0] = op[1]
        if changed and m.has_subdep:
            exp += [("on_subx", op[1])]
    elif k == "sub_y":
        if m.sub is None:
            return []
        obj.sub.y = op[1]
        m.sub[1] = op[1]
    elif k == "watch":
        obj.param.watch(ms.user_cb, ["a"])
        m.user_watchers += 1
        marks.add("user_watcher")
    elif k == "extra":
        obj.extra["n"] = op[1]
        m.extra["n"] = op[1]
    return sorted(exp, key=repr)


def _state(obj):
    return {"a": obj.a, "free": obj.free, "l": list(obj.l), "d": dict(obj.d), "s": obj.s,
            "bounds": obj.param.a.bounds, "objects": list(obj.param.s.objects), "sd": obj.sd,
            "sd_objects": list(obj.param.sd.objects), "sd_range": list(obj.param.sd.get_range().values()),
            "sub": None if obj.sub is None else [obj.sub.x, obj.sub.y], "extra": dict(obj.extra),
            "has_lock": getattr(obj, "_lock", None) == ["not part of the state"],
            "slot": getattr(obj, "tag", None) if type(obj).__name__ == "ParSlots" else None}


def _model_state(m):
    return {"a": m.a, "free": m.free, "l": list(m.l), "d": dict(m.d), "s": m.s, "bounds": m.bounds, "objects": list(m.objects),
            "sd": m.sd, "sd_objects": list(m.sd_objects), "sd_range": list(m.sd_objects),
            "sub": None if m.sub is None else list(m.sub), "extra": dict(m.extra), "has_lock": True,
            "slot": ["kept in a slot"] if getattr(m, "slots", False) else None}


def execute(case):
    res = Result()
    cls = getattr(ms, case["cls"])
    has_subdep = case["cls"] == "Par"
    marks = set()
    if case["cls"] == "ParSlots" and case.get("ancestor_copied_first"):
        copy.deepcopy(ms.ParNoSubDep())
        res.label("ancestor_class_copied_earlier")
    orig = cls()
    m0 = Side(has_subdep)
    m0.slots = case["cls"] == "ParSlots"
    if case.get("cls_default_after"):
        orig.a = orig.a            # from now on the value is the object's own (identical to the class default)
    # reading .param.a / .param.s creates per-instance Parameter copies only when an op asks for it
    for op in case["pre"]:
        before = len(orig.log)
        exp = _apply(op, orig, m0, marks)
        new = sorted(orig.log[before:], key=repr)
        if exp is not None and new != exp:
            res.fail("C17.precopy_log", f"before any copy, {op!r} logged {new!r}, expected {exp!r}")
            return res
    sub_attached = m0.sub is not None
    region = "[attached-sub-with-parent-dependency] " if (has_subdep and sub_attached) else ""
    # ---- copy ------------------------------------------------------------------
    try:
        if case["how"] == "deepcopy":
            cp = copy.deepcopy(orig)
        else:
            cp = pickle.loads(pickle.dumps(orig, protocol=int(case["how"][-1])))
    except Exception as e:  # noqa: BLE001
        res.fail("C17.copy_failed", f"{region}{case['how']} of {case['cls']} after {case['pre']!r} raised {type(e).__name__}: {e}")
        return res
    m1 = m0.clone()
    # ---- faithful at copy time ----------------------------------------------------
    so, sc, sm = _state(orig), _state(cp), _model_state(m0)
    if so != sm:
        res.fail("C17.original_changed_by_copy", f"{region}original after copying: {so!r}, model {sm!r}")
    if sc != sm:
        res.fail("C17.copy_not_equal", f"{region}copy via {case['how']}: {sc!r}, original {sm!r}")
    if cp.log != orig.log:
        res.fail("C17.copy_not_equal", f"{region}ordinary attribute log differs: {cp.log!r} vs {orig.log!r}")
    for name, a, b in (("l", orig.l, cp.l), ("d", orig.d, cp.d), ("extra", orig.extra, cp.extra), ("log", orig.log, cp.log),
                       ("sub", orig.sub, cp.sub), ("_param__private", orig._param__private, cp._param__private)):
        if a is not None and a is b:
            res.fail("C17.shared_mutable_state", f"{region}{name} is the same object on the original and the copy")
    for pn in ("a", "s", "l"):
        pa = orig._param__private.params.get(pn)
        pb = cp._param__private.params.get(pn)
        if pa is not None and pa is pb:
            res.fail("C17.shared_mutable_state", f"{region}the per-instance Parameter {pn!r} is shared")
        if pa is not None and pb is not None and pn == "s" and pa._objects is pb._objects:
            res.fail("C17.shared_mutable_state", f"{region}the objects list of the per-instance Selector is shared")
    # ---- an optional second copy (of the copy, or of the original) -----------------------------
    objs, models = [orig, cp], [m0, m1]
    if case.get("second"):
        src_i = 1 if case["second"] == "copy_of_copy" else 0
        try:
            if case.get("how2", "deepcopy") == "deepcopy":
                cp2 = copy.deepcopy(objs[src_i])
            else:
                cp2 = pickle.loads(pickle.dumps(objs[src_i], protocol=int(case["how2"][-1])))
        except Exception as e:  # noqa: BLE001
            res.fail("C17.copy_failed", f"{region}second copy ({case['second']}, {case['how2']}) raised {type(e).__name__}: {e}")
            return res
        objs.append(cp2)
        models.append(models[src_i].clone())
        res.label("second_copy:" + case["second"])
        if _state(cp2) != _model_state(models[2]):
            res.fail("C17.copy_not_equal", f"{region}second copy ({case['second']}): {_state(cp2)!r}, model {_model_state(models[2])!r}")
    names_ = ["original", "copy", "second copy"]
    # ---- diverging histories ---------------------------------------------------------
    touched = set()
    for entry in case["post"]:
        side, op = entry[0] % len(objs), entry[1]
        ctx = entry[2] if len(entry) > 2 else None
        obj, m = objs[side], models[side]
        other_i = (side + 1) % len(objs)
        if ctx and len(objs) > 2 and side != 2:
            other_i = 2 if other_i != 2 and entry[0] % 2 else other_i      # prefer a context on a restored object
        touched.add(min(side, 1))
        lens = [len(o.log) for o in objs]
        who = names_[side]
        tag = region + ("[multi-param-batch-on-copy] " if op[0] == "update2" and side >= 1 else "")
        try:
            if ctx == "batch_other":
                with batch_call_watchers(objs[other_i]):
                    exp = _apply(op, obj, m, marks)
                    new = sorted(obj.log[lens[side]:], key=repr)
                res.label("op_inside_batch_of_another_object")
                tag += f"[while a batch was open on the {names_[other_i]}] "
            elif ctx == "discard_other":
                with discard_events(objs[other_i]):
                    exp = _apply(op, obj, m, marks)
                    new = sorted(obj.log[lens[side]:], key=repr)
                res.label("op_inside_discard_events_of_another_object")
                tag += f"[inside discard_events of the {names_[other_i]}] "
            else:
                exp = _apply(op, obj, m, marks)
                new = sorted(obj.log[lens[side]:], key=repr)
        except Exception as e:  # noqa: BLE001
            res.fail("C17.operation_failed_after_copy", f"{region}{op!r} on the {who} raised {type(e).__name__}: {e}")
            break
        if exp is not None and new != exp:
            res.fail("C17.dependency_log", f"{tag}{op!r} on the {who} ({case['how']}) logged {new!r} there, expected {exp!r}")
        elif exp is not None and sorted(obj.log[lens[side]:], key=repr) != exp:
            res.fail("C17.dependency_log", f"{tag}{op!r} on the {who}: more was logged once the context on the other object "
                                           f"ended: {obj.log[lens[side]:]!r}, expected {exp!r}")
        for j, o in enumerate(objs):
            if j != side and len(o.log) != lens[j]:
                res.fail("C17.acts_on_other_side", f"{region}{op!r} on the {who} appended {o.log[lens[j]:]!r} to the log of the {names_[j]}")
        for o, mm, w in zip(objs, models, names_):
            if _state(o) != _model_state(mm):
                res.fail("C17.not_independent", f"{region}after {op!r} on the {who}, the {w} is {_state(o)!r}, its own model says "
                                                f"{_model_state(mm)!r}")
        if res.violations:
            break
    if case.get("cls_default_after") and not res.violations:
        base = ms.Par if case["cls"] == "Par" else ms.ParNoSubDep
        old_default = base.a
        try:
            base.a = 77
            res.label("class_default_reassigned_after_the_copies")
            for o, mm, w in zip(objs, models, names_):
                if _state(o) != _model_state(mm):
                    res.fail("C17.not_independent", f"{region}after the class default of a was reassigned, the {w} is {_state(o)!r}, "
                                                    f"its own model says {_model_state(mm)!r}")
        finally:
            base.a = old_default
    # user watchers registered with explicit precedences run in that order, on every side (the order among the other callbacks
    # of one operation is not claimed)
    for o, w in zip(objs, names_):
        run = []
        for e in o.log + [("end",)]:
            if e[0] == "note":
                run.append(int(e[1][1:]))
                continue
            if run and run != sorted(run, reverse=True) and len(set(run)) == len(run):
                res.fail("C17.dependency_log", f"{region}on the {w} the watchers registered with precedences ran in the order of tags "
                                               f"{run!r} (higher tag = lower precedence value = earlier)")
                break
            run = []
    for mk in marks:
        res.label(mk)
    res.label("how:" + case["how"], "cls:" + case["cls"])
    res.nontrivial = bool(marks & {"per_instance_parameter", "sub_object", "inplace_mutation"}) and touched == {0, 1}
    return res


def _region_subdep(case, v):
    """KF-C17-1: an attached sub-object carrying a watcher installed by the parent's depends('sub.x')."""
    return "[attached-sub-with-parent-dependency]" in v.detail


REGIONS = {"attached_sub_with_parent_dependency": _region_subdep}
