"""C02 - a rejected assignment has no observable effect."""
from hypothesis import strategies as st

import param
from param.parameterized import batch_call_watchers
from vlib import refworld as rw
from vlib.core import Result

ID = "C02"
LEVEL = "exploration"
RULE = ("Hypothesis-generated prefix histories (<=8 ops: valid plain sets, links of every reference kind incl. nested, relinks, "
        "overrides, valid source updates) followed by exactly one rejected attempt: invalid plain value, reference whose current "
        "value is invalid for the target (Parameter holding 5000 / a string, bind, rx expression out of bounds, nested list), "
        "constant or readonly violation by plain value or by reference, a Composite with one invalid component; via instance attribute, single-key param.update or the "
        "class attribute; oracle = the attempt raises ValueError/TypeError, the full observable snapshot (every parameter value "
        "of every object by identity, per-(object, parameter) watcher counts, the linked names and their reference objects) is "
        "equal before and after, the universal event log gained nothing, and a behavioural probe (every source bumped to a fresh "
        "valid value) shows the target following exactly the links it had. Non-trivial = the rejected attempt happens while the "
        "target has >=1 live link; distinct = case hash. The class-level attempt may also go through a subclass that inherits the parameter (its own Parameters and its namespace are part of the snapshot). A sixth of the cases use a second world instead: Dynamic numeric "
        "parameters holding shared number generators under a time-dependent clock, with a rejected (constant / read-only / "
        "out-of-bounds) assignment of a generator or plain value; oracle = what every parameter yields at the unchanged time, "
        "the stored generators and the event log are the same before and after (non-trivial there = the rejected generator "
        "is also the live value of another parameter). A third, small world (1 case in 13): a rejected assignment to a parameter on which an asynchronous reference is still pending - the reference must still deliver. Round-4 additions: references that yield nothing right now (Skip) assigned to constants / read-only parameters, Composites whose later component is constant, read-only or given a reference with an invalid current value, and the set of names the target holds a value of its own for (an instance that followed the class default must still follow it).")
ASSUMPTIONS = [
    "only attempts the spec rejects are generated (whether a value is rejected is C01's subject)",
    "multi-key update() is excluded: C05 requires the keys applied before a rejected one to be announced",
    "read-only inspection of _param__private.watchers / refs for the snapshot",
]
SIZES = {"quick": 1500, "thorough": 10000}

TN = ["x", "y", "t", "lst", "d"]


@st.composite
def _prefix_op(draw):
    k = draw(st.sampled_from(["link", "link", "link", "override", "src", "src", "plain"]))
    if k == "link":
        n = draw(st.sampled_from(TN))
        return ["link", n, draw(rw.ref_for(n))]
    if k == "override":
        return ["override", draw(st.sampled_from(TN)), draw(st.integers(0, 9))]
    if k == "src":
        pn = draw(st.sampled_from(["v", "w", "s"]))
        return ["src", draw(st.integers(0, 1)), pn, draw(st.integers(-20, 60)) if pn != "s" else draw(st.sampled_from(["a", "b"]))]
    return ["plain", draw(st.sampled_from(["x", "y", "p"])), draw(st.integers(0, 9))]


_attempt = st.one_of(
    st.tuples(st.just("bad_plain"), st.sampled_from(["x", "y", "p", "t", "lst", "d"])),
    st.tuples(st.just("bad_ref"), st.sampled_from(["x", "y", "t", "lst"]), st.sampled_from(["p", "bind", "rx", "dep", "nlist"])),
    st.tuples(st.just("bad_ref"), st.sampled_from(["x", "y"]), st.sampled_from(["p", "bind", "rx", "dep"])),
    st.tuples(st.just("constant"), st.sampled_from(["c", "r", "name", "sel"]), st.sampled_from(["plain", "ref", "ref_nothing_yet"])),
    # a Composite whose second component (or length) is invalid: the first, valid component must not be applied either
    st.tuples(st.just("bad_composite"), st.just("pq"), st.sampled_from(["second_invalid", "first_invalid", "too_long",
                                                                        "second_invalid_for_instance"])),
    # the second component cannot be assigned at all (constant, read-only) or is given a reference whose current value is invalid
    st.sampled_from([["bad_composite", "pc", "second_constant"], ["bad_composite", "pr", "second_readonly"],
                     ["bad_composite", "px", "second_reference_invalid"]]),
    # a rejection that is neither ValueError nor TypeError: a folder that does not exist
    st.tuples(st.just("bad_path"), st.just("pth")),
).map(list)


@st.composite
def _case(draw):
    ctor = draw(st.lists(st.tuples(st.sampled_from(TN), st.just(None)), max_size=2, unique_by=lambda l: l[0]))
    ctor = [[n, draw(rw.ref_for(n))] for n, _ in ctor]
    return {"ctor": ctor, "prefix": draw(st.lists(_prefix_op(), max_size=8)), "attempt": draw(_attempt),
            "route": draw(st.sampled_from(["attr", "attr", "update", "class", "ctor", "subclass"])),
            # the attempt may happen inside an open batch that already holds a queued (accepted) change
            "in_batch": draw(st.sampled_from([False, False, True]))}


@st.composite
def _dyn_case(draw):
    """Dynamic (callable-valued) numeric parameters under a time-dependent clock: generators shared between parameters."""
    op = st.one_of(
        st.tuples(st.just("setgen"), st.sampled_from(["a", "b"]), st.integers(0, 1)),
        st.tuples(st.just("setgen"), st.sampled_from(["a", "b"]), st.integers(0, 1)),
        st.tuples(st.just("setplain"), st.sampled_from(["a", "b", "bd"]), st.integers(0, 1)),
        st.tuples(st.just("tick"), st.integers(1, 3)),
        st.tuples(st.just("read"), st.sampled_from(["a", "b"])),
    ).map(list)
    return {"scenario": "dynamic", "prefix": draw(st.lists(op, min_size=1, max_size=6)),
            "attempt": [draw(st.sampled_from(["cst", "ro", "ro", "bd", "cst"])), draw(st.sampled_from(["gen0", "gen1", "gen0", "plain"])),
                        draw(st.sampled_from(["attr", "update", "class"]))],
            "gen_kind": draw(st.sampled_from(["counter", "ng"]))}


_async_case = st.fixed_dictionaries({
    "scenario": st.just("async_pending"), "kind": st.sampled_from(["coro", "agen"]),
    "attempt": st.sampled_from(["bad_plain", "bad_param_ref", "bad_bind", "bad_type"]), "route": st.sampled_from(["attr", "update"]),
    "drains": st.integers(0, 3)})


def strategy(tier):
    return st.one_of(_case(), _case(), _case(), _case(), _case(), _case(), _case(), _case(), _case(), _case(), _dyn_case(),
                     _dyn_case(), _async_case)


def _execute_async_pending(case):
    """An asynchronous reference is pending on the parameter; a rejected synchronous assignment to that parameter changes
    nothing: the reference stays linked and still delivers its value."""
    import asyncio
    res = Result()
    P = type("P", (param.Parameterized,), {"x": param.Number(default=0, bounds=(0, 100), allow_refs=True)})
    S = type("S", (param.Parameterized,), {"v": param.Parameter(default=5000)})

    async def main():
        o = P()
        log = []
        o.param.watch(lambda e: log.append(e.new), "x")
        fut = asyncio.get_running_loop().create_future()

        async def coro():
            return await fut

        async def agen():
            yield await fut
        o.x = coro if case["kind"] == "coro" else agen
        for _ in range(case["drains"]):
            await asyncio.sleep(0)
        bad = {"bad_plain": 5000, "bad_param_ref": S().param.v, "bad_bind": param.bind(lambda v: v, S().param.v),
               "bad_type": "not-a-number"}[case["attempt"]]
        n_tasks = len(o._param__private.async_refs)
        try:
            if case["route"] == "attr":
                o.x = bad
            else:
                o.param.update(x=bad)
        except (ValueError, TypeError):
            pass
        else:
            res.fail("C02.attempt_not_rejected", f"async_pending {case!r}: the invalid assignment was accepted (x={o.x!r})")
            return
        if log or o.x != 0:
            res.fail("C02.value_changed", f"async_pending {case!r}: the rejected assignment changed x to {o.x!r} / invoked watchers {log!r}")
        if len(o._param__private.async_refs) != n_tasks:
            res.fail("C02.links_changed", f"async_pending {case!r}: the pending asynchronous reference was dropped by the rejected assignment")
        if fut.done():
            res.fail("C02.old_link_lost", f"async_pending {case!r}: the rejected assignment cancelled what the pending reference awaits")
            return
        fut.set_result(7)
        for _ in range(8):
            await asyncio.sleep(0)
        if o.x != 7:
            res.fail("C02.old_link_lost", f"async_pending {case!r}: after the rejected assignment the pending reference no longer "
                                          f"delivers its value (x={o.x!r}, expected 7)")
    asyncio.run(main())
    from param import _utils
    _utils._running_tasks.clear()
    res.label("scenario:async_pending", "attempt:" + case["attempt"], "route:" + case["route"])
    res.nontrivial = True
    return res


class _Counter:
    """deterministic number generator 1, 2, 3, ... (a callable that accepts attributes, as Dynamic requires)"""

    def __init__(self):
        self.n = 0

    def __call__(self):
        self.n += 1
        return self.n


def _execute_dynamic(case):
    import numbergen as ng
    res = Result()
    tf = param.Dynamic.time_fn
    param.Dynamic.time_dependent = True
    tf(0, time_type=int)
    try:
        D = type("D", (param.Parameterized,), {
            "a": param.Number(default=0), "b": param.Number(default=0), "bd": param.Number(default=0, bounds=(0, 1)),
            "cst": param.Number(default=0.5, constant=True), "ro": param.Number(default=0.25, readonly=True)})
        gens = [_Counter(), _Counter()] if case["gen_kind"] == "counter" else [ng.UniformRandom(seed=11), ng.UniformRandom(seed=12)]
        o = D()
        log = []
        o.param.watch(lambda *evs: log.append([(e.name, e.type) for e in evs]), list(D.param), onlychanged=False)
        holders = {}
        for op in case["prefix"]:
            if op[0] == "setgen":
                setattr(o, op[1], gens[op[2]])
                holders[op[1]] = op[2]
            elif op[0] == "setplain":
                setattr(o, op[1], op[2])
                holders.pop(op[1], None)
            elif op[0] == "tick":
                tf(tf() + op[1])
            else:
                getattr(o, op[1])
        tgt, vk, route = case["attempt"]
        if tgt == "bd":
            value = 7 if vk == "plain" else None
            if value is None:
                vk, value = "plain", -3
        else:
            value = 99 if vk == "plain" else gens[int(vk[-1])]
        if route == "class" and tgt != "ro":
            route = "attr"           # constants (and bounded parameters, validly) are assignable on the class
        shared = vk != "plain" and int(vk[-1]) in holders.values()
        res.label("scenario:dynamic", "attempt:" + tgt, "route:" + route,
                  "generator_shared_with_live_parameter" if shared else "fresh_or_plain_value")

        def snap():
            return ([(pn, getattr(o, pn)) for pn in ("a", "b", "bd", "cst", "ro")],
                    [(pn, id(o.param.get_value_generator(pn))) for pn in ("a", "b", "bd", "cst", "ro")],
                    [(pn, o.param.inspect_value(pn)) for pn in ("a", "b")],
                    [(pn, id(getattr(D.param[pn], "default"))) for pn in ("a", "b", "bd", "cst", "ro")])
        before = snap()
        if snap() != before:
            res.dontcare += 1
            return res
        nlog = len(log)
        try:
            if route == "attr":
                setattr(o, tgt, value)
            elif route == "update":
                o.param.update(**{tgt: value})
            else:
                setattr(D, tgt, value)
        except (ValueError, TypeError):
            pass
        else:
            res.fail("C02.attempt_not_rejected", f"dynamic scenario {case['attempt']!r} via {route}: expected a rejection")
            return res
        after = snap()
        if log[nlog:]:
            res.fail("C02.watcher_invoked", f"dynamic scenario {case['attempt']!r} via {route}: watchers invoked {log[nlog:]!r}")
        if after != before:
            res.fail("C02.value_changed", f"dynamic scenario: after prefix {case['prefix']!r} the rejected assignment of {vk} to {tgt} via "
                                          f"{route} changed what the parameters yield at an unchanged time: {before[0]!r} -> {after[0]!r}")
        res.nontrivial = shared
        return res
    finally:
        param.Dynamic.time_dependent = False
        tf(0, time_type=int)


def _ident(v, pn):
    """identity of a value for the snapshot; a Composite builds a new list on every read: its components' identities"""
    return tuple(id(x) for x in v) if pn in ("pq", "pc", "pr", "px") else id(v)


def _plain(n, k):
    return {"x": k, "y": k, "t": f"p{k}", "lst": [k], "d": {"p": k}, "p": k}[n]


def execute(case):
    if case.get("scenario") == "dynamic":
        return _execute_dynamic(case)
    if case.get("scenario") == "async_pending":
        return _execute_async_pending(case)
    res = Result()
    S, T = rw.make_classes()
    srcs = [S(), S()]
    bad = S(v=5000, w=1, s="str")         # a third source, never linked by the prefix, whose values are invalid for the target
    mv = {(i, p): getattr(srcs[i], p) for i in (0, 1) for p in ("v", "w", "s")}
    links = {}
    kw = {}
    for n, spec in case["ctor"]:
        ref, fn, deps = rw.build_ref(spec, srcs)
        kw[n] = ref
        links[n] = (fn, deps)
    tgt = T(**kw)
    T2 = type("T2", (T,), {})          # inherits every Parameter; its namespace has been read (caches filled)
    list(T2.param)
    log = []
    objs = {"S0": srcs[0], "S1": srcs[1], "BAD": bad, "T": tgt}
    for on, o in objs.items():
        for pn in o.param:
            o.param.watch(lambda *evs, on=on: log.append((on, [(e.name, e.new) for e in evs])), pn, onlychanged=False)
    tgt.param.watch(lambda *evs: log.append(("T.sel.objects", [(e.name, e.new) for e in evs])), "sel", what="objects",
                    onlychanged=False)
    # ---- prefix ----------------------------------------------------------------
    for op in case["prefix"]:
        k = op[0]
        try:
            if k == "link":
                ref, fn, deps = rw.build_ref(op[2], srcs)
                setattr(tgt, op[1], ref)
                links[op[1]] = (fn, deps)
            elif k == "override":
                setattr(tgt, op[1], _plain(op[1], op[2]))
                links.pop(op[1], None)
            elif k == "src":
                setattr(srcs[op[1]], op[2], op[3])
                mv[(op[1], op[2])] = op[3]
            else:
                setattr(tgt, op[1], _plain(op[1], op[2]))
                links.pop(op[1], None)
        except ValueError:
            res.dontcare += 1
            return res           # the prefix is meant to consist of successful operations only
    res.label(f"live_links:{min(len(links), 3)}")

    # ---- the rejected attempt ------------------------------------------------------
    att = case["attempt"]
    route = case["route"]
    kind, name = att[0], att[1]
    if kind == "constant" and att[2] == "ref_nothing_yet" and name not in ("c", "r"):
        att = [kind, name, "ref"]
    if kind == "bad_plain":
        value = {"x": 5000, "y": -5000, "p": 99, "t": 5, "lst": "notalist", "d": [1]}[name]
    elif kind == "bad_ref":
        how = att[2]
        src_p = bad.param.v if name in ("x", "y") else (bad.param.w if name == "t" else bad.param.s)
        if name == "lst":
            # a nested list whose *resolved* value is not a list cannot be built; use a reference resolving to a non-list
            value = bad.param.s if how != "nlist" else param.bind(lambda a: (a, a), bad.param.v)
        elif how == "p":
            value = src_p
        elif how == "bind":
            value = param.bind(lambda a: a, src_p)
        elif how == "dep":
            @param.depends(src_p)
            def value(a):
                return a
        elif how == "rx":
            value = src_p.rx() if name == "t" else src_p.rx() * 1 + bad.param.w.rx()
        else:
            value = src_p
    elif kind == "bad_composite":
        value = {"second_invalid": [7, 99], "first_invalid": [99, 7], "too_long": [3, 4, 5],
                 "second_invalid_for_instance": [7, 8], "second_constant": [7, 8], "second_readonly": [7, 8],
                 "second_reference_invalid": [7, None]}[att[2]]
        if att[2] == "second_reference_invalid":
            import param as _param
            value = [7, _param.bind(lambda a: 5000, srcs[0].param.v)]      # resolves to a number outside the bounds of x
        if att[2] in ("second_constant", "second_readonly", "second_reference_invalid") and route not in ("attr", "update"):
            route = "attr"
        if att[2] == "second_invalid_for_instance":
            # the second component is valid for the class but not under the bounds this instance has for it
            tgt.param.q.bounds = (0, 5)
            if route not in ("attr", "update"):
                route = "attr"
    elif kind == "bad_path":
        value = "/no/such/folder/anywhere-c02"
    else:
        if att[2] == "plain":
            value = {"c": 77, "r": 78, "name": "newname", "sel": 99}[name]
        elif att[2] == "ref_nothing_yet" and name in ("c", "r"):
            # a reference whose function produces no value right now (raises Skip)
            import param as _param

            def _nothing(v):
                raise _param.Skip
            value = _param.bind(_nothing, srcs[0].param.v)
            if route not in ("attr", "update"):
                route = "attr"
        else:
            value = srcs[0].param.v if name != "name" else srcs[0].param.s
    if kind == "bad_composite" and route in ("ctor", "subclass"):
        route = "attr"
    if name == "sel" and att[2] == "ref":
        value = 98
    if route == "ctor" and kind == "constant" and name != "r":
        route = "attr"           # constants may be given to the constructor: not a rejected attempt
    if route in ("class", "subclass"):
        if kind == "bad_ref" or (kind == "constant" and (name != "r" or att[2] == "ref")) or name in ("lst", "d", "t"):
            # references are not resolved at class level (a Parameter object assigned there re-declares the parameter) and
            # constants are legitimately assignable on the class: not rejected attempts
            route = "attr"
    res.label("attempt:" + kind, "route:" + route, "target_param_linked" if name in links else "target_param_unlinked")

    def snapshot():
        snap = {}
        for on, o in objs.items():
            for pn in o.param:
                snap[("value", on, pn)] = _ident(o.param.get_value_generator(pn), pn)
            for pn, whats in o._param__private.watchers.items():
                for what, ws in whats.items():
                    snap[("watchers", on, pn, what)] = len(ws)
        snap[("cls_defaults",)] = tuple(_ident(getattr(T, pn), pn) for pn in T.param)
        # the subclass: which Parameters it holds itself, and which Parameter objects its namespace serves
        snap[("subclass",)] = (tuple(sorted(n for n in vars(T2) if n in T.param)), tuple(id(T2.param[pn]) for pn in T.param),
                               tuple(_ident(getattr(T2, pn), pn) for pn in T.param))
        snap[("metadata", "T.sel")] = (tuple(tgt.param.sel.objects), tuple(T.param.sel.objects))
        snap[("refs",)] = tuple(sorted((n, id(r)) for n, r in tgt._param__private.refs.items()))
        snap[("async_refs",)] = tuple(sorted(tgt._param__private.async_refs))
        # which parameters the target holds a value of its own for (the others show, and follow, the class default)
        snap[("value", "T", "<names with a value of their own>")] = tuple(sorted(
            n_ for n_ in getattr(tgt._param__private, "values", {}) if n_ not in ("pq", "pc", "pr", "px")))   # (a Composite is a view)
        return snap

    kw2 = {}
    if route == "ctor":
        # a second target built with the same (valid) links plus the rejected keyword; the reference objects are
        # created before the snapshot (building an rx expression registers its own watchers on the sources)
        for n, spec in case["ctor"]:
            kw2[n] = rw.build_ref(spec, srcs)[0]
        kw2[name] = value
    batch = None
    if case.get("in_batch") and route in ("attr", "update"):
        batch = batch_call_watchers(tgt)
        batch.__enter__()
        tgt.p = (tgt.p + 1) % 10          # an accepted change, queued until the batch exits
        res.label("attempt_inside_open_batch")
    before = snapshot()
    values_before = {(on, pn): o.param.get_value_generator(pn) for on, o in objs.items() for pn in o.param}   # keep alive
    nlog = len(log)
    try:
        if route == "ctor":
            T(**kw2)
        elif route == "attr":
            setattr(tgt, name, value)
        elif route == "update":
            tgt.param.update(**{name: value})
        elif route == "subclass":
            setattr(T2, name, value)
        else:
            setattr(T, name, value)
        raised = None
    except (ValueError, TypeError, OSError) as e:
        raised = e
    nlog_after_attempt = len(log)
    if batch is not None:
        batch.__exit__(None, None, None)
        if len(log) == nlog_after_attempt and nlog_after_attempt == nlog:
            res.fail("C02.queued_event_lost", f"{att!r} via {route} inside an open batch: the accepted change queued before the "
                                              f"rejected attempt was never announced")
    if raised is None and kind == "constant" and att[2] == "ref" and name in ("c", "name"):
        # the reference happened to resolve to the very object the constant already holds: assigning the identical
        # object is allowed, so this was not a rejected attempt after all
        res.dontcare += 1
        return res
    if raised is None:
        res.fail("C02.attempt_not_rejected", f"{att!r} via {route}: expected a rejection, the assignment succeeded "
                                             f"({name} is now {getattr(tgt, name)!r})")
        return res
    after = snapshot()
    if nlog_after_attempt != nlog:
        res.fail("C02.watcher_invoked", f"{att!r} via {route} raised {type(raised).__name__} but watchers were invoked: {log[nlog:nlog_after_attempt]!r}")
    diff = {k: (before.get(k), after.get(k)) for k in set(before) | set(after) if before.get(k) != after.get(k)}
    if diff:
        kinds = sorted({k[0] for k in diff})
        clause = {"value": "C02.value_changed", "watchers": "C02.watchers_changed", "refs": "C02.links_changed",
                  "metadata": "C02.metadata_changed", "subclass": "C02.class_namespace_changed"}.get(kinds[0], "C02.state_changed")
        if "refs" in kinds:
            clause = "C02.links_changed"
        res.fail(clause, f"{att!r} via {route} raised {type(raised).__name__} but the observable state changed: "
                         f"{sorted((k, v) for k, v in diff.items())[:6]!r}; live links before: {sorted(links)}")
    # ---- behavioural probe: the target follows exactly the links it had ------------------
    del log[:]
    fresh = 100
    for i in (0, 1):
        for pn in ("v", "w", "s"):
            fresh += 1
            val = fresh if pn != "s" else f"s{fresh}"
            try:
                setattr(srcs[i], pn, val)
            except Exception as e:  # noqa: BLE001
                res.fail("C02.probe_source_update_raised", f"after the rejected {att!r}: updating source {i}.{pn} raised {e!r}")
                continue
            mv[(i, pn)] = val
    try:
        bad.v, bad.w, bad.s = 1, 2, "ok"        # the rejected reference must not be live
    except Exception as e:  # noqa: BLE001
        res.fail("C02.rejected_reference_live", f"after the rejected {att!r}: updating its source raised {e!r}")
    # (a Composite is a view of its components: it follows a linked component)
    views = {"pc": "c", "pr": "r", "px": "x"}
    want_unlinked = {n: values_before[("T", n)] for n in T.param if n not in links and views.get(n) not in links}
    for n, (fn, deps) in links.items():
        want = fn(mv)
        if getattr(tgt, n) != want:
            res.fail("C02.old_link_lost", f"after the rejected {att!r} via {route}: {n} no longer follows its reference "
                                          f"(is {getattr(tgt, n)!r}, reference resolves to {want!r})")
    for n, v in want_unlinked.items():
        if n == "name":
            continue
        if getattr(tgt, n) is not v and getattr(tgt, n) != v:
            res.fail("C02.rejected_reference_live", f"after the rejected {att!r} via {route}: unlinked {n} changed from {v!r} to "
                                                    f"{getattr(tgt, n)!r} when the sources were updated")
    res.nontrivial = len(links) >= 1
    return res
