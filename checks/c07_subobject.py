"""C07 - sub-object dependencies follow the object currently attached.

Model: for each dependent method the vector of values reached through the *current* path of each of
its dependencies (UNRESOLVED when some element of the path is None).  After each operation the method
must have been called exactly once if a resolved component changed, not at all if none did.
"""
from hypothesis import strategies as st

import param
from param.parameterized import batch_call_watchers
from vlib.core import Result

ID = "C07"
LEVEL = "exploration"
RULE = ("Hypothesis-generated histories (<=12 ops) over Top.a -> Mid.b -> Leaf(x, y), Mid.z and a second root Top.c -> Leaf, with "
        "one or two depends(watch=True) methods whose dependency sets are drawn from {a.z, a.b.x, a.b.y, a.param, a.b.param, c.x, "
        "c.y, c.param} (several leaves under the same sub-object, different depths, different roots); pool of 3 Mid and 4 Leaf "
        "objects with values in {0,1,2} so equal-valued replacements are common; ops: attach/replace/detach a Mid, a Leaf under "
        "any Mid (attached or not), the c leaf; leaf / mid assignments (by attribute, param.update or inside a batch on the sub-object) on attached and detached objects; one parent, two parents sharing the pool of sub-objects, or a parent and an instance of a subclass with one more dependent method; construction with or "
        "without initial sub-objects; oracle = vector model (exactly once / never), assignments on detached objects call nothing, "
        "and detached objects keep no watcher. Non-trivial = a sub-object is replaced and both the old and the new object are "
        "assigned afterwards, or a method has >=2 dependencies through the same sub-object; distinct = case hash. Dependencies also include the root parameters themselves (a, c) and the sub-object parameter a.b; the sub-objects may be attached by an on_init method of the parent (declared before or after the dependent methods); a dependent method may raise at its k-th call, after which every method is judged on when the method that raised depends on something through the replaced object (then all were re-bound before it was called), else only that method.")
ASSUMPTIONS = [
    "the call count is not claimed for an operation in which some component flips between resolved and unresolved",
    "read-only inspection of the watcher tables of pool objects (the harness installs no watcher on them)",
]
SIZES = {"quick": 1500, "thorough": 10000}

DEPS = ["a.z", "a.b.x", "a.b.y", "a.param", "a.b.param", "c.x", "c.y", "c.param", "a", "c",     # "a", "c": the root parameters themselves
        "a.b"]                                                                                  # the sub-object parameter of the mid-level object
UNRES = "<unresolved>"

_v = st.integers(0, 2)
_pi = st.integers(0, 1)          # which parent (taken modulo the number of parents)
_route = st.sampled_from(["attr", "attr", "update", "batch"])
_ops = st.one_of(
    st.tuples(st.just("attach_mid"), st.sampled_from([-1, 0, 1, 2, 0, 1, 2]), _pi),
    st.tuples(st.just("attach_mid"), st.integers(0, 2), _pi),
    st.tuples(st.just("attach_leaf"), st.integers(0, 2), st.sampled_from([-1, 0, 1, 2, 3, 0, 1, 2, 3])),
    st.tuples(st.just("attach_leaf"), st.integers(0, 2), st.integers(0, 3)),
    st.tuples(st.just("attach_c"), st.integers(-1, 3), _pi),
    st.tuples(st.just("set_leaf"), st.integers(0, 3), st.sampled_from(["x", "y"]), _v, _route),
    st.tuples(st.just("set_leaf"), st.integers(0, 3), st.sampled_from(["x", "y"]), _v, _route),
    st.tuples(st.just("set_mid"), st.integers(0, 2), _v, _route),
).map(list)


@st.composite
def _case(draw):
    nm = draw(st.integers(1, 2))
    methods = [sorted(draw(st.sets(st.sampled_from(DEPS), min_size=1, max_size=3))) for _ in range(nm)]
    parents = draw(st.sampled_from([["Top"], ["Top"], ["Top", "Top"], ["Top", "Sub"], ["Sub", "Top"]]))
    sub_method = sorted(draw(st.sets(st.sampled_from(DEPS), min_size=1, max_size=2)))
    prefix = []
    if "Sub" in parents and draw(st.booleans()):
        # the subclass reaches through a root none of the inherited methods uses, and the plain parent is used first
        methods = [sorted(draw(st.sets(st.sampled_from(DEPS[:5]), min_size=1, max_size=3))) for _ in range(nm)]
        sub_method = sorted(draw(st.sets(st.sampled_from(DEPS[5:8]), min_size=1, max_size=2)))
        prefix = [["attach_mid", draw(st.integers(0, 2)), parents.index("Top")],
                  ["attach_c", draw(st.integers(0, 3)), parents.index("Sub")],
                  ["set_leaf", draw(st.integers(0, 3)), draw(st.sampled_from(["x", "y"])), draw(_v), "attr"]]
    forced = None
    if parents == ["Top"] and draw(st.integers(0, 5)) == 0:
        # fault motif: the (single) dependent method raises while it handles the replacement of the mid-level object of a
        # depth-2 path; afterwards the object attached now and the detached one are both assigned
        methods = [sorted(set(draw(st.sets(st.sampled_from(DEPS[:5]), max_size=1))) | {"a.b.x"})]
        if draw(st.booleans()):
            # ... and a second method reaches through the same objects: it does not raise and must follow the replacement too
            methods.append(sorted(set(draw(st.sets(st.sampled_from(DEPS[:5]), max_size=1))) | {draw(st.sampled_from(["a.b.x", "a.b.y"]))}))
        l0, l1 = draw(st.sampled_from([(0, 1), (1, 2), (2, 3)]))
        forced = {"init_a": 0, "mid_leaf0": l0, "raise": [0, 1],
                  "ops": [["attach_leaf", 0, l1], ["set_leaf", l1, "x", draw(_v), "attr"], ["set_leaf", l0, "x", draw(_v), "attr"],
                          ["set_leaf", l1, "y", draw(_v), "attr"], ["set_leaf", l0, "y", draw(_v), "attr"]]}
    out = {
        "methods": methods,
        "leaf_vals": draw(st.lists(st.tuples(_v, _v), min_size=4, max_size=4)),
        "mid_vals": draw(st.lists(_v, min_size=3, max_size=3)),
        "mid_leaf": draw(st.lists(st.sampled_from([-1, 0, 1, 2, 3, 0, 1, 2, 3, 1]), min_size=3, max_size=3)),
        "init_a": draw(st.sampled_from([-1, 0, 1, 2, 0, 1, 2])), "init_c": draw(st.sampled_from([-1, 0, 1, 2, 3, 0, 1, 2, 3])),
        # sub-objects that are falsy (a container-like Parameterized that is empty) are still attached objects
        "falsy": draw(st.sampled_from([False, False, False, True])),
        # the k-th invocation of one dependent method raises (the operation that caused it fails; what follows must still hold)
        "raise_on_call": draw(st.one_of(st.none(), st.none(), st.tuples(st.integers(0, nm - 1), st.integers(1, 3)).map(list))),
        "ops": prefix + draw(st.lists(_ops, min_size=1, max_size=12)),
        # the parents: one Top; or two Tops sharing the pool of sub-objects; or a Top and an instance of a subclass that
        # adds one more dependent method (possibly through a root the parent's methods do not use)
        "parents": parents,
        "sub_method": sub_method,
        "init_a1": draw(st.sampled_from([-1, 0, 1, 2])), "init_c1": draw(st.sampled_from([-1, 0, 1, 2, 3])),
        # the sub-objects are attached by an on_init method of the parent itself (declared before / after the dependent methods)
        "on_init_attach": draw(st.one_of(st.none(), st.none(), st.none(), st.fixed_dictionaries({
            "a": st.integers(-1, 2), "c": st.integers(-1, 3), "position": st.sampled_from(["first", "last"])}))),
    }
    if forced:
        out["init_a"] = forced["init_a"]
        out["mid_leaf"][0] = forced["mid_leaf0"]
        out["leaf_vals"] = [[i % 3, 0] for i in range(4)]           # pairwise different x for neighbouring leaves
        out["raise_on_call"] = forced["raise"]
        out["ops"] = forced["ops"] + out["ops"]
    return out


def strategy(tier):
    return _case()


class _Boom(Exception):
    pass


def execute(case):
    res = Result()
    extra = {"__len__": lambda self: 0} if case.get("falsy") else {}
    Leaf = type("Leaf", (param.Parameterized,), dict({"x": param.Number(0), "y": param.Number(0)}, **extra))
    Mid = type("Mid", (param.Parameterized,), dict({"z": param.Number(0), "b": param.ClassSelector(class_=Leaf, default=None)}, **extra))
    if case.get("falsy"):
        res.label("falsy_subobjects")
    roc = case.get("raise_on_call")
    ncalls = {}
    ns = {"a": param.ClassSelector(class_=Mid, default=None), "c": param.ClassSelector(class_=Leaf, default=None)}
    calls = []          # (parent index, method index)

    oi = case.get("on_init_attach")

    def _build(self):
        if not self.__dict__.get("_built"):
            self.__dict__["_built"] = True
            if oi["a"] >= 0:
                self.a = mids[oi["a"]]
            if oi["c"] >= 0:
                self.c = leaves[oi["c"]]
    if oi:
        ns["kind"] = param.Integer(0)
        res.label("subobjects_attached_by_on_init_method:" + oi["position"])
        if oi["position"] == "first":
            ns["_build"] = param.depends("kind", watch=True, on_init=True)(_build)

    def mk(i):
        def m(self):
            calls.append((getattr(self, "_pidx", -1), i))
            ncalls[i] = ncalls.get(i, 0) + 1
            if roc and roc[0] == i and ncalls[i] == roc[1] and armed[0]:
                raise _Boom(f"m{i} call {ncalls[i]}")
        m.__name__ = f"m{i}"
        return m
    for i, deps in enumerate(case["methods"]):
        ns[f"m{i}"] = param.depends(*deps, watch=True)(mk(i))
    if oi and oi["position"] == "last":
        ns["_build"] = param.depends("kind", watch=True, on_init=True)(_build)
    Top = type("Top", (param.Parameterized,), ns)
    nbase = len(case["methods"])
    sub_deps = case.get("sub_method") or ["c.y"]
    Sub = type("Sub", (Top,), {f"m{nbase}": param.depends(*sub_deps, watch=True)(mk(nbase))})
    leaves = [Leaf(x=x, y=y) for x, y in case["leaf_vals"]]
    mids = []
    for j, z in enumerate(case["mid_vals"]):
        lk = case["mid_leaf"][j]
        mids.append(Mid(z=z, b=leaves[lk] if lk >= 0 else None))
    armed = [False]
    tops, tmethods = [], []
    for pi, kind_ in enumerate(case.get("parents") or ["Top"]):
        kw = {}
        ia, ic = (case["init_a"], case["init_c"]) if pi == 0 else (case.get("init_a1", -1), case.get("init_c1", -1))
        if ia >= 0:
            kw["a"] = mids[ia]
        if ic >= 0:
            kw["c"] = leaves[ic]
        t_ = (Sub if kind_ == "Sub" else Top)(**kw)
        t_._pidx = pi
        tops.append(t_)
        tmethods.append(list(enumerate(case["methods"])) + ([(nbase, sub_deps)] if kind_ == "Sub" else []))
    if len(tops) > 1:
        res.label("parents:" + "+".join(case["parents"]))
    del calls[:]
    ncalls.clear()
    armed[0] = True

    def reach(top, spec):
        """list of (component key, value) reached from `top` through the current path"""
        parts = spec.split(".")
        obj = top
        for p in parts[:-1]:
            obj = getattr(obj, p) if obj is not None else None
            if obj is None:
                return [(spec, UNRES)]
        last = parts[-1]
        if last == "param":
            return [(f"{spec}:{n}", getattr(obj, n)) for n in obj.param]
        return [(spec, getattr(obj, last))]

    def vector(top, deps):
        out = {}
        for d in deps:
            out.update(dict(reach(top, d)))
        return out

    def reachable(top):
        objs = set()
        if top.a is not None:
            objs.add(id(top.a))
            if top.a.b is not None:
                objs.add(id(top.a.b))
        if top.c is not None:
            objs.add(id(top.c))
        return objs

    def differs(a, b):
        if a is b:
            return False
        if isinstance(a, param.Parameterized) or isinstance(b, param.Parameterized):
            return True
        return a != b

    def assign(obj, name, value, route):
        if route == "update":
            obj.param.update(**{name: value})
        elif route == "batch":
            with batch_call_watchers(obj):
                setattr(obj, name, value)
        else:
            setattr(obj, name, value)

    judged_only = None      # after a dependent method raised: the only method still judged (see below)
    hist = {"replaced": set(), "assigned_after_replace": set(), "same_sub": False}
    for deps in case["methods"]:
        roots = [d.rsplit(".", 1)[0] for d in deps]
        if len(roots) != len(set(roots)):
            hist["same_sub"] = True
            res.label("several_deps_through_same_subobject")
        if len({d.split(".")[0] for d in deps}) > 1:
            res.label("deps_with_different_roots")

    for step, op in enumerate(case["ops"]):
        tag = f"op{step}:{op!r}"
        k = op[0]
        res.label("op:" + k)
        before = [[vector(t_, d) for _i, d in tmethods[pi]] for pi, t_ in enumerate(tops)]
        reach_before = [reachable(t_) for t_ in tops]
        del calls[:]
        same_object = False
        boomed = []
        acted_on = None       # the parent an attach operation was made on (others are unaffected unless they share the object)
        target_id = None      # the pool object a leaf / mid assignment was made on

        def do(fn):
            try:
                fn()
            except _Boom:
                boomed.append(True)
                res.label("dependent_method_raised")

        if k in ("attach_mid", "attach_c"):
            pi = (op[2] if len(op) > 2 else 0) % len(tops)
            top = tops[pi]
            acted_on = pi
            attr = "a" if k == "attach_mid" else "c"
            pool = mids if k == "attach_mid" else leaves
            old = getattr(top, attr)
            same_object = old is not None and op[1] >= 0 and pool[op[1]] is old
            do(lambda: setattr(top, attr, pool[op[1]] if op[1] >= 0 else None))
            new = getattr(top, attr)
            if old is not None and new is not old:
                hist["replaced"].add(id(old))
                if new is not None:
                    hist["replaced"].add(id(new))
        elif k == "attach_leaf":
            mid = mids[op[1]]
            old = mid.b
            target_id = id(mid)
            same_object = old is not None and op[2] >= 0 and leaves[op[2]] is old
            do(lambda: setattr(mid, "b", leaves[op[2]] if op[2] >= 0 else None))
            if old is not None and mid.b is not old and any(id(mid) in r for r in reach_before):
                hist["replaced"].add(id(old))
                if mid.b is not None:
                    hist["replaced"].add(id(mid.b))
        elif k == "set_leaf":
            leaf = leaves[op[1]]
            target_id = id(leaf)
            route = op[4] if len(op) > 4 else "attr"
            do(lambda: assign(leaf, op[2], op[3], route))
            if route != "attr":
                res.label("leaf_assignment_via_" + route)
            if id(leaf) in hist["replaced"]:
                hist["assigned_after_replace"].add(id(leaf))
        elif k == "set_mid":
            mid = mids[op[1]]
            target_id = id(mid)
            route = op[3] if len(op) > 3 else "attr"
            do(lambda: assign(mid, "z", op[2], route))
            if id(mid) in hist["replaced"]:
                hist["assigned_after_replace"].add(id(mid))
        if boomed:
            res.dontcare += 1       # a method raised: which other methods of the aborted dispatch still ran is not claimed
            # ... nor how much of the aborted dispatch (re-binding of the *other* methods' watchers) was done. The method
            # that raised had already been re-bound when it was called: with a single parent the history goes on for that
            # method alone (and without the census of detached objects); otherwise it ends here
            if len(tops) > 1 or roc is None:
                break
            # Which attribute was replaced (None: a plain assignment on a leaf / mid, nothing had to be re-bound).  A dependency
            # *through* the replaced object refreshes, before its method is called, the watchers of every method with a
            # dependency under the same root: when the method that raised has such a dependency, all the methods are bound to
            # the attached objects again and the whole object is judged as before.  (A method that merely watches the replaced
            # attribute itself - 'a', 'a.param' for a.b - has no such refresh: the others were not re-bound if it ran first.)
            root_ = {"attach_mid": "a.", "attach_c": "c.", "attach_leaf": "a.b."}.get(k)     # dependencies *through* the replaced object
            rdeps = dict(tmethods[0])[roc[0]]
            if root_ is None or any(d.startswith(root_) for d in rdeps):
                res.label("judged_on_after_a_raising_method:all_methods")
                continue
            judged_only = roc[0]
            res.label("judged_on_after_a_raising_method:that_method_only")
            continue
        for pi, top in enumerate(tops):
            if boomed:
                break
            who = f"parent{pi}:{case.get('parents', ['Top'])[pi]} " if len(tops) > 1 else ""
            detached_target = target_id is not None and target_id not in reach_before[pi]
            untouched_parent = acted_on is not None and acted_on != pi
            for slot, (i, deps) in enumerate(tmethods[pi]):
                if judged_only is not None and i != judged_only:
                    continue
                n = calls.count((pi, i))
                b, a = before[pi][slot], vector(top, deps)
                keys = set(b) | set(a)
                changed = [key for key in keys if differs(b.get(key, UNRES), a.get(key, UNRES))]
                flips = [key for key in changed if b.get(key, UNRES) is UNRES or a.get(key, UNRES) is UNRES or key not in b or key not in a]
                if detached_target or untouched_parent:
                    if n:
                        res.fail("C07.fired_by_detached_object", f"{tag}: {who}m{i}{deps} was called {n}x by an operation on an object "
                                                                 f"that is not attached to this parent")
                    continue
                unresolved = [key for key in keys if b.get(key, UNRES) is UNRES or a.get(key, UNRES) is UNRES]
                if flips or (unresolved and k.startswith("attach")):
                    res.dontcare += 1       # the statement conditions on the path resolving both before and after
                    continue
                if same_object and not changed:
                    res.dontcare += 1       # the identical (non-comparable) object assigned again: a changes-only watcher may fire
                    continue
                if changed and n != 1:
                    both = [r for r in ("a", "c") if r in deps and any(d.startswith(r + ".") for d in deps)]
                    mark = "[root-and-leaf-dependency] " if (n == 2 and both and k in ("attach_mid", "attach_c")) else ""
                    res.fail("C07.missed_or_duplicate_call" if n == 0 else "C07.duplicate_call",
                             f"{mark}{tag}: {who}m{i}{deps}: the values reached through the current path changed "
                             f"({[(key, b[key], a[key]) for key in sorted(changed)][:4]!r}) but the method was called {n}x")
                elif not changed and n != 0:
                    res.fail("C07.spurious_call", f"{tag}: {who}m{i}{deps}: nothing reached through the current path changed, yet the "
                                                  f"method was called {n}x")
        if judged_only is not None and len(tmethods[0]) > 1:
            continue        # (with a single dependent method every watcher on the sub-objects is that method's: census kept)
        # objects attached to no parent keep no watcher on a parent's behalf
        now = set().union(*[reachable(t_) for t_ in tops])
        for name, pool in (("mid", mids), ("leaf", leaves)):
            for j, o in enumerate(pool):
                if id(o) in now:
                    continue
                n = sum(len(ws) for whats in o._param__private.watchers.values() for ws in whats.values())
                n += sum(len(ws) for p in o._param__private.params.values() for ws in p.watchers.values())
                if n:
                    res.fail("C07.watcher_left_on_detached_object", f"{tag}: {name}{j} is not attached but still carries {n} "
                                                                    f"watcher(s)")
        if res.violations:
            break
    if len(hist["assigned_after_replace"]) >= 2:
        res.label("old_and_new_assigned_after_replacement")
    res.nontrivial = len(hist["assigned_after_replace"]) >= 2 or hist["same_sub"]
    return res


def _region_root_and_leaf(case, v):
    """KF-C07-7: a method that depends on a root parameter itself ('a') and on something reached through it ('a.x'): replacing
    the root object by one with a differing leaf value runs the method twice (one watcher for the parameter, one for the path)."""
    return v.clause == "C07.duplicate_call" and "[root-and-leaf-dependency]" in v.detail


REGIONS = {"root_and_leaf_dependency_fire_twice": _region_root_and_leaf}
