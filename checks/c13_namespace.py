"""C13 - the `.param` namespace always agrees with attribute access.

Invariant checked after every operation, for every class K of the hierarchy and every instance:
static MRO lookup (first Parameter found in K.__mro__ __dict__s) == the `.param` view.
"""
import json

from hypothesis import strategies as st

import param
from vlib.core import Result

ID = "C13"
LEVEL = "exploration"
RULE = ("Hypothesis-generated histories (<=15 ops) over a fresh hierarchy A<-B<-C, B2(A), diamond D(B,B2) with generated declarations: "
        "namespace reads (list/param[n]/values()/repr/objects, which populate caches), class-level sets at every level, "
        "rejected class-level sets, class-level assignment of Parameter objects, class-level update() contexts and triggers, one private (underscore) parameter name, add_parameter at every level (new or existing names, via class or instance namespace), instance creation and "
        "instance sets; invariant after every op: static MRO lookup == .param view (names, identity, default, "
        "values(), repr, watch, serialization). Non-trivial = a namespace of K was read before a later op changed K or an "
        "ancestor of K at class level; distinct = distinct case hash. Round 5: class-level assignments during which a class-level watcher reads the namespaces and raises; Parameters with negative precedence and the HTML display route (_repr_html_) among the reads.")
ASSUMPTIONS = [
    "ground truth for 'the Parameter that governs attribute access' is the first Parameter found walking K.__mro__ __dict__s",
    "only Number/Integer/String parameters with static (non-dynamic) JSON-native values are used",
]
SIZES = {"quick": 2000, "thorough": 10000}

NAMES = ["x", "_y", "w", "v", "z0", "z1"]        # one private name (leading underscore): a Parameter like any other
CLS = ["A", "B", "C", "B2", "D"]


def _mk(kind, val):
    # (a third of the Parameters are hidden from GUIs - negative precedence - which changes nothing for the namespace)
    prec = -1 if val % 3 == 0 else None
    if kind == "num":
        return param.Number(default=val, precedence=prec)
    if kind == "int":
        return param.Integer(default=int(val), precedence=prec)
    return param.String(default=f"s{val}", precedence=prec)


def _val(kind, val):
    if kind == "num":
        return float(val) + 0.5
    if kind == "int":
        return int(val)
    return f"v{val}"


_kind = st.sampled_from(["num", "int", "str", "str"])
_small = st.integers(0, 9)
_cls = st.integers(0, 4)
_name3 = st.integers(0, 2)
_name = st.integers(0, len(NAMES) - 1)


def _ops():
    return st.one_of(
        st.tuples(st.just("read"), _cls, st.sampled_from(["list", "getitem", "values", "objects", "contains", "inst_values", "repr", "repr_html", "inst_repr_html"])),
        st.tuples(st.just("read"), _cls, st.sampled_from(["list", "getitem", "values", "objects", "contains", "inst_values", "repr", "repr_html", "inst_repr_html"])),
        st.tuples(st.just("cls_set"), _cls, _name, _small),
        st.tuples(st.just("cls_set"), _cls, _name, _small),
        st.tuples(st.just("cls_set_bad"), _cls, _name3),
        # a class-level assignment during which a class-level watcher reads the namespaces and then raises
        st.tuples(st.just("cls_set_watcher_raises"), _cls, _name3, _small),
        st.tuples(st.just("cls_assign_param"), _cls, _name, _kind, _small),
        # `with Cls.param.update(...)` on a class (optionally reading namespaces / creating an instance inside the block)
        st.tuples(st.just("cls_updctx"), _cls, _name, _small, st.sampled_from(["none", "read", "new"])),
        # class-level trigger with a class-level watcher whose callback reads the namespaces
        st.tuples(st.just("cls_trigger"), _cls, _name),
        st.tuples(st.just("add"), _cls, _name, _kind, _small, st.booleans()),
        st.tuples(st.just("add"), _cls, _name, _kind, _small, st.booleans()),
        # a runtime addition / class-level assignment of a Parameter object that is refused when the default it would inherit
        # does not satisfy its bounds (and accepted otherwise)
        st.tuples(st.just("add_bounded"), _cls, _name3, st.sampled_from(["add_parameter", "setattr"])),
        st.tuples(st.just("new"), _cls),
        st.tuples(st.just("inst_set"), _small, _name, _small),
        st.tuples(st.just("inst_read"), _small, _name),
    )


@st.composite
def _case(draw):
    decl = []
    for _c in range(5):
        d = draw(st.lists(st.tuples(_name3, _kind, _small), max_size=3, unique_by=lambda t: t[0]))
        decl.append([list(t) for t in d])
    ops = draw(st.lists(_ops(), min_size=1, max_size=13))
    # reads first: the caches must be populated before the class-level changes for the history to be interesting
    reads = draw(st.lists(st.tuples(st.just("read"), _cls, st.sampled_from(["list", "getitem", "values", "objects", "contains"])),
                          max_size=3))
    news = draw(st.lists(st.tuples(st.just("new"), _cls), max_size=2))
    # ... and an instance that owns per-instance Parameter copies before the class-level changes
    copies = [("inst_read", draw(_small), draw(_name3))] if news and draw(st.booleans()) else []
    return {"decl": decl, "ops": [list(o) for o in news + copies + reads + ops]}


def strategy(tier):
    return _case()


class _Boom(Exception):
    pass


def _static(K):
    """name -> Parameter governing attribute access on K (first hit in the MRO)."""
    out = {}
    for k in K.__mro__:
        for n, v in vars(k).items():
            if isinstance(v, param.Parameter) and n not in out:
                # a non-Parameter attribute earlier in the MRO would shadow it; none are generated
                out[n] = v
    return out


def execute(case):
    res = Result()
    kinds = {}   # name -> kind currently governing, per class (looked up dynamically through static)

    def ns(i):
        return {NAMES[n]: _mk(k, v) for n, k, v in (case["decl"][i] if i < len(case["decl"]) else [])}

    A = type("A", (param.Parameterized,), ns(0))
    B = type("B", (A,), ns(1))
    C = type("C", (B,), ns(2))
    B2 = type("B2", (A,), ns(3))
    D = type("D", (B, B2), ns(4))     # diamond: MRO D, B, B2, A
    classes = [A, B, C, B2, D]
    parents = {A: [], B: [A], C: [B, A], B2: [A], D: [B, B2, A]}
    insts = []
    read_classes = set()
    nontrivial = False

    def kind_of(p):
        if isinstance(p, param.Integer):
            return "int"
        if isinstance(p, param.Number):
            return "num"
        return "str"

    def invariant(tag):
        for K in classes:
            stat = _static(K)
            listed = list(K.param)
            if set(listed) != set(stat):
                res.fail("C13.names", f"after {tag}: {K.__name__}: .param lists {sorted(listed)} but attribute "
                                      f"access reaches {sorted(stat)}")
                continue
            for n, p in stat.items():
                if n not in K.param:
                    res.fail("C13.contains", f"after {tag}: {n!r} not in {K.__name__}.param")
                q = K.param[n]
                if q is not p:
                    res.fail("C13.identity", f"after {tag}: {K.__name__}.param[{n!r}] is not the Parameter found by "
                                             f"attribute lookup (owner {getattr(q.owner, '__name__', q.owner)} vs "
                                             f"{getattr(p.owner, '__name__', p.owner)})")
                if q.default != getattr(K, n):
                    res.fail("C13.default", f"after {tag}: {K.__name__}.param[{n!r}].default={q.default!r} but "
                                            f"{K.__name__}.{n}={getattr(K, n)!r}")
                if getattr(K.param, n) is not q:
                    res.fail("C13.getattr", f"after {tag}: {K.__name__}.param.{n} is not param[{n!r}]")
            vals = K.param.values()
            for n in stat:
                if n == "name":
                    continue
                if n not in vals or vals[n] != getattr(K, n):
                    res.fail("C13.cls_values", f"after {tag}: {K.__name__}.param.values()[{n!r}]="
                                               f"{vals.get(n, '<missing>')!r} but getattr gives {getattr(K, n)!r}")
            if set(K.param.objects(instance=False)) != set(stat):
                res.fail("C13.objects", f"after {tag}: {K.__name__}.param.objects() keys differ from attribute access")
        for idx, i in enumerate(insts):
            K = type(i)
            stat = _static(K)
            vals = i.param.values()
            if set(vals) != set(stat):
                res.fail("C13.inst_names", f"after {tag}: inst{idx}:{K.__name__} values() keys {sorted(vals)} vs "
                                           f"reachable {sorted(stat)}")
                continue
            r = repr(i)
            for n in stat:
                if vals[n] != getattr(i, n):
                    res.fail("C13.inst_values", f"after {tag}: inst{idx}:{K.__name__} values()[{n!r}]={vals[n]!r} "
                                                f"but getattr gives {getattr(i, n)!r}")
                if f"{n}=" not in r:
                    res.fail("C13.repr", f"after {tag}: inst{idx}:{K.__name__} repr lacks {n!r}: {r}")
                elif n != "name" and f"{n}={getattr(i, n)!r}" not in r:
                    res.fail("C13.repr", f"after {tag}: inst{idx}:{K.__name__} repr shows a different value for {n!r}: "
                                         f"{r} vs {getattr(i, n)!r}")
                try:
                    w = i.param.watch(lambda *e: None, n)
                    i.param.unwatch(w)
                except Exception as e:  # noqa: BLE001
                    res.fail("C13.watch", f"after {tag}: inst{idx}:{K.__name__} cannot watch reachable {n!r}: {e!r}")
            try:
                ser = json.loads(i.param.serialize_parameters())
            except Exception as e:  # noqa: BLE001
                res.fail("C13.serialize", f"after {tag}: inst{idx} serialize raised {e!r}")
            else:
                if set(ser) != set(stat):
                    res.fail("C13.serialize", f"after {tag}: inst{idx}:{K.__name__} serialized keys {sorted(ser)} vs "
                                              f"reachable {sorted(stat)}")
                else:
                    for n in stat:
                        if ser[n] != getattr(i, n):
                            res.fail("C13.serialize", f"after {tag}: inst{idx} serialized {n!r}={ser[n]!r} vs "
                                                      f"{getattr(i, n)!r}")

    for step, op in enumerate(case["ops"]):
        tag = f"op{step}:{op!r}"
        name = op[0]
        res.label(f"op:{name}")
        if name == "read":
            K = classes[op[1]]
            how = op[2]
            if how == "list":
                list(K.param)
            elif how == "getitem":
                K.param["name"]
            elif how == "values":
                K.param.values()
            elif how == "objects":
                K.param.objects(instance=False)
            elif how == "contains":
                "x" in K.param
            elif how in ("inst_values", "repr", "inst_repr_html"):
                cand = [i for i in insts if type(i) is K]
                if cand:
                    if how == "repr":
                        repr(cand[0])
                    elif how == "inst_repr_html":
                        cand[0].param._repr_html_()        # what a notebook calls to display the object
                    else:
                        cand[0].param.values()
            elif how == "repr_html":
                K.param._repr_html_()
            read_classes.add(K)
            # reads are themselves the cache-populating step; the invariant is NOT run after a
            # read so that it cannot mask (or pre-populate) anything
            continue
        if name == "cls_set":
            K = classes[op[1]]
            stat = _static(K)
            n = NAMES[op[2]]
            if n not in stat:
                continue
            if any(k in read_classes for k in classes if k is K or K in parents[k]):
                nontrivial = True
                res.label("read_before_class_change")
            setattr(K, n, _val(kind_of(stat[n]), op[3]))
            if vars(K).get(n) is not None and stat[n] is not vars(K)[n]:
                res.label("cls_set_copies_inherited")
        elif name == "cls_set_bad":
            # a class-level assignment the Parameter rejects (wrong type): whatever it leaves behind, the namespace
            # must keep agreeing with attribute access - also after later, accepted assignments
            K = classes[op[1]]
            stat = _static(K)
            n = NAMES[op[2]]
            if n not in stat:
                continue
            try:
                setattr(K, n, 5 if kind_of(stat[n]) == "str" else "not-a-number")
            except ValueError:
                res.label("rejected_class_level_set" + ("_on_inherited" if n not in vars(K) or stat[n] is not vars(K).get(n) else ""))
            else:
                res.dontcare += 1
        elif name == "cls_set_watcher_raises":
            K = classes[op[1]]
            stat = _static(K)
            n = NAMES[op[2]]
            if n not in stat:
                continue

            def peek_and_fail(*events):
                for e in events:
                    for k in classes:
                        if k is e.cls or e.cls in parents[k]:
                            list(k.param)
                            k.param[n]
                            k.param.values()
                raise _Boom("class-level watcher")
            h = K.param.watch(peek_and_fail, n, onlychanged=False)
            try:
                setattr(K, n, _val(kind_of(stat[n]), op[3]))
            except _Boom:
                res.label("class_level_set_with_raising_watcher" + ("_on_inherited" if stat[n] is not vars(K).get(n) or True else ""))
            finally:
                # (the assignment may have given K a Parameter of its own: the watcher lives on whichever object holds it now)
                try:
                    K.param.unwatch(h)
                except Exception:  # noqa: BLE001
                    pass
                for k in classes:
                    for p_ in (vars(k).get(n),):
                        if isinstance(p_, param.Parameter) and p_.watchers.get("value"):
                            p_.watchers["value"] = [w for w in p_.watchers["value"] if w is not h]
        elif name == "cls_updctx":
            K = classes[op[1]]
            stat = _static(K)
            n = NAMES[op[2]]
            if n not in stat:
                continue
            if any(k in read_classes for k in classes if k is K or K in parents[k]):
                nontrivial = True
                res.label("read_before_class_change")
            with K.param.update(**{n: _val(kind_of(stat[n]), op[3])}):
                if op[4] == "read":
                    for k in classes:
                        list(k.param)
                        k.param.values()
                elif op[4] == "new":
                    insts.append(K())
                invariant(tag + " (inside the block)")
            res.label("class_level_update_context")
        elif name == "cls_trigger":
            K = classes[op[1]]
            stat = _static(K)
            n = NAMES[op[2]]
            if n not in stat:
                continue

            def peek(*events):
                for e in events:
                    for k in classes:
                        if k is e.cls or e.cls in parents[k]:
                            list(k.param)
                            k.param.values()
            h = K.param.watch(peek, n, onlychanged=False)
            try:
                K.param.trigger(n)
            finally:
                K.param.unwatch(h)
            res.label("class_level_trigger")
        elif name == "add_bounded":
            K = classes[op[1]]
            n = NAMES[op[2]]
            try:
                if op[3] == "setattr":
                    setattr(K, n, param.Number(bounds=(-1, 100)))
                else:
                    K.param.add_parameter(n, param.Number(bounds=(-1, 100)))
            except (RuntimeError, ValueError, TypeError):
                res.label("runtime_addition_refused")
            else:
                res.label("runtime_addition_of_bounded_parameter_accepted")
            if any(k in read_classes for k in classes if k is K or K in parents[k]):
                nontrivial = True
        elif name == "cls_assign_param":
            # a class-level assignment whose value is a Parameter object (the metaclass documents it as (re)declaring it)
            K = classes[op[1]]
            n = NAMES[op[2]]
            if any(k in read_classes for k in classes if k is K or K in parents[k]):
                nontrivial = True
                res.label("read_before_class_change")
            try:
                setattr(K, n, _mk(op[3], op[4]))
            except RuntimeError:
                res.label("runtime_addition_refused")      # (the default does not satisfy what is inherited for that name)
            res.label("class_level_assignment_of_parameter_object")
        elif name == "add":
            K = classes[op[1]]
            n = NAMES[op[2]]
            if any(k in read_classes for k in classes if k is K or K in parents[k]):
                nontrivial = True
                res.label("read_before_class_change")
            p = _mk(op[3], op[4])
            via_inst = [i for i in insts if type(i) is K] if op[5] else []
            try:
                if via_inst:
                    via_inst[0].param.add_parameter(n, p)
                    res.label("add_via_instance")
                else:
                    K.param.add_parameter(n, p)
            except RuntimeError:
                res.label("runtime_addition_refused")      # (the default does not satisfy what is inherited for that name)
            st_ = _static(K)
            if n in NAMES[:3]:
                res.label("add_existing_name")
        elif name == "new":
            K = classes[op[1]]
            insts.append(K())
        elif name == "inst_set":
            if not insts:
                continue
            i = insts[op[1] % len(insts)]
            stat = _static(type(i))
            n = NAMES[op[2]]
            if n not in stat:
                continue
            # the value type is chosen from the instance-level Parameter (what a user would consult)
            setattr(i, n, _val(kind_of(i.param[n]), op[3]))
        elif name == "inst_read":
            if not insts:
                continue
            i = insts[op[1] % len(insts)]
            n = NAMES[op[2]]
            if n in _static(type(i)):
                i.param[n]     # creates the per-instance Parameter copy
            continue
        invariant(tag)
    if not case["ops"] or all(o[0] in ("read", "inst_read") for o in case["ops"]):
        invariant("end")
    res.nontrivial = nontrivial
    return res
