"""C19 - time-dependent dynamic values are a pure function of time.

Oracle: a table keyed by (generator identity = kind, parameters, name, seed; time) holding the first
value seen; every later read at the same key, on any instance and whatever was visited in between,
must return the same value.
"""
from fractions import Fraction

from hypothesis import strategies as st

import numbergen as ng
import json

import param
from vlib.core import Result

ID = "C19"
LEVEL = "exploration"
RULE = ("Hypothesis-generated histories (<=20 ops) with Dynamic.time_dependent on: time jumps (ints incl. negative and -1; "
        "Fractions after switching time_type), +=/-=, reads, double reads, inspect_value, nested `with time:` blocks with "
        "jumps inside, state push/pop pairs (incl. producing a value with the same time stamp before the pop), int / Fraction / float clocks, "
        "over 2 classes x 2 instances holding generators (UniformRandom, NormalRandom, UniformRandomInt, Choice, ScaledTime, "
        "ExponentialDecay, SquareWave, TimeSampledFn, Choice over plain objects (identity), history-dependent random streams - one value per time - and arithmetic "
        "compositions; one instance may follow a generator assigned on the class after it got its own Parameter objects) drawn from small "
        "(name, seed) pools so that equal generators sit on different instances; oracle = first-value table keyed by "
        "(generator identity, time); a bounded Number raises for out-of-bounds values at every read at that time. Non-trivial = some (generator, time) is read at least twice with a different time "
        "visited in between, or a context/push-pop encloses a jump; distinct = case hash. Round 5: a generator undefined at time 0 (1 / ScaledTime: every read there raises), an instance holding a copy of a class-level generator, the time type changed inside a context (restore of time and type checked, nothing judged afterwards), identity-valued Choice under push / excursion / pop.")
ASSUMPTIONS = [
    "generator identity is (kind, constructor parameters, name, seed); random generators are created with time_dependent=True",
    "param.random_seed is left at its default; times stay far below 2**32",
    "Dynamic.time_dependent / the global clock / its time_type are restored after every case",
]
SIZES = {"quick": 1000, "thorough": 6000}

NAMESP = ["g0", "g1"]
SEEDS = [1, 2]
KINDS = ["uniform", "normal", "randint", "choice", "scaled", "decay", "square", "stream", "sampled", "choice_obj",
         "inv"]            # 1 / (factor * time): undefined (ZeroDivisionError) at time 0


def _leaf_gen():
    return st.tuples(st.sampled_from(KINDS + ["stream", "stream", "sampled"]), st.integers(0, 1), st.integers(0, 1),
                     st.integers(0, 2)).map(list)


def _gen_spec():
    leaf = _leaf_gen().filter(lambda sp: sp[0] != "choice_obj")
    any_leaf = _leaf_gen()
    return st.one_of(
        any_leaf, any_leaf, leaf,
        st.tuples(st.just("add"), leaf, leaf).map(list),
        st.tuples(st.just("mulc"), leaf, st.integers(2, 3)).map(list),
        st.tuples(st.just("neg"), leaf).map(list),
        st.tuples(st.just("abs"), leaf).map(list),
        st.tuples(st.just("raddc"), leaf, st.integers(1, 3)).map(list),
    )


def _ops(depth=0):
    inst = st.integers(0, 3)
    pn = st.integers(0, 1)
    base = [
        st.tuples(st.just("jump"), st.integers(-3, 8)),
        st.tuples(st.just("jump"), st.integers(-3, 8)),
        st.tuples(st.just("jump"), st.just(-1)),
        st.tuples(st.just("adv"), st.integers(1, 3)),
        st.tuples(st.just("back"), st.integers(1, 3)),
        st.tuples(st.just("read"), inst, pn),
        st.tuples(st.just("read"), inst, pn),
        st.tuples(st.just("read"), inst, pn),
        st.tuples(st.just("read2"), inst, pn),
        st.tuples(st.just("inspect"), inst, pn),
        st.tuples(st.just("half"),),
        st.tuples(st.just("force"), inst, pn),
        # push, jump, read, pop, read again at the new time (the cache no longer holds that time)
        st.tuples(st.just("pushjump"), inst, pn, st.integers(-3, 8)),
        # read here, jump away, force a new value there, jump back, read here again
        st.tuples(st.just("forceback"), inst, pn, st.integers(-3, 8)),
        # read, push, produce a new value carrying the *same* time stamp (forced, or by leaving and coming back), pop
        st.tuples(st.just("pushsame"), inst, pn, st.sampled_from(["force", "roundtrip"]), st.integers(-3, 8)),
    ]
    if depth >= 1:
        # inside a time context / pushed state: the clock is given another time type along with a new time
        base.append(st.tuples(st.just("retype"), st.integers(-3, 8), st.sampled_from(["int", "fraction", "float"])))
    if depth < 2:
        base.append(st.tuples(st.just("ctx"), st.lists(st.deferred(lambda: _ops(depth + 1)), max_size=4)))
        base.append(st.tuples(st.just("pushpop"), inst, st.lists(st.deferred(lambda: _ops(depth + 1)), max_size=4)))
    return st.one_of(*base).map(list)


@st.composite
def _case(draw):
    gens = draw(st.lists(_gen_spec(), min_size=8, max_size=8))      # 4 instances x 2 parameters
    if draw(st.booleans()):
        # make sure equal generators sit on different instances
        gens[4] = gens[0]
        gens[3] = gens[7] = gens[1]
    ops = draw(st.lists(_ops(), min_size=2, max_size=20))
    if draw(st.integers(0, 3)) == 0:
        # a generator that often leaves the hard bounds of the Number it sits behind (inst2.n1), read twice at each time
        gens[5] = ["randint", draw(st.integers(0, 1)), draw(st.integers(0, 1)), draw(st.integers(0, 2))]
        at = draw(st.integers(0, len(ops)))
        motif = []
        for tt in draw(st.lists(st.integers(-3, 8), min_size=3, max_size=5, unique=True)):
            motif += [["jump", tt], ["read2", 2, 1]]
        ops[at:at] = motif
    if draw(st.integers(0, 4)) == 0:
        # values compared by identity (plain objects chosen by a Choice) behind a Dynamic parameter, read, then a pushed
        # state with an excursion to another time, popped, inspected and read again
        slot = draw(st.sampled_from([1, 3, 4, 6]))
        gens[slot] = ["choice_obj", draw(st.integers(0, 1)), draw(st.integers(0, 1)), draw(st.integers(0, 2))]
        i_, pn_ = slot // 2, slot % 2
        at = draw(st.integers(0, len(ops)))
        ops[at:at] = [["read", i_, pn_], ["pushpop", i_, [["jump", draw(st.integers(-3, 8))], ["read", i_, pn_]]],
                      ["inspect", i_, pn_], ["read", i_, pn_]]
    # the very same generator object may also sit behind a second parameter, alone or inside `g + c`
    share = draw(st.one_of(st.none(), st.tuples(st.integers(0, 7), st.integers(0, 7), st.sampled_from([0, 0, 10]))))
    return {"gens": gens, "time_mode": draw(st.sampled_from(["int", "fraction", "float"])), "ops": ops,
            "share": list(share) if share else None,
            # inst0 gets no generator of its own for n1: it owns a per-instance Parameter copy and then follows a generator
            # assigned on the class
            "class_gen": draw(st.sampled_from([False, True, "copied", "copied"]))}


def strategy(tier):
    return _case()


def _build(spec):
    k = spec[0]
    if k in KINDS:
        name, seed, v = NAMESP[spec[1]], SEEDS[spec[2]], spec[3]
        if k == "uniform":
            return ng.UniformRandom(name=name, seed=seed, lbound=-1.0 - v, ubound=2.0 + v, time_dependent=True)
        if k == "normal":
            return ng.NormalRandom(name=name, seed=seed, mu=float(v), sigma=1.0 + v, time_dependent=True)
        if k == "randint":
            return ng.UniformRandomInt(name=name, seed=seed, lbound=0, ubound=100 + v, time_dependent=True)
        if k == "choice":
            return ng.Choice(name=name, seed=seed, choices=[1, 2, 3, 5 + v, 8, 13, 21], time_dependent=True)
        if k == "scaled":
            return ng.ScaledTime(factor=1.0 + v)
        if k == "decay":
            return ng.ExponentialDecay(starting_value=2.0 + v, time_constant=5.0)
        if k == "square":
            return ng.SquareWave(onset=0.0, duration=1.0 + v, off_duration=2.0)
        if k == "choice_obj":
            # values that are compared by identity (plain objects)
            return ng.Choice(name=name, seed=seed, choices=_TOKENS[v:] + _TOKENS[:v], time_dependent=True)
        if k == "inv":
            return 1.0 / ng.ScaledTime(factor=1.0 + v)
        if k == "stream":
            # a plain random stream: its values depend on how often it was called; Dynamic caches one value per time
            return ng.UniformRandom(name=name, seed=seed + 10 * v)
        if k == "sampled":
            return ng.TimeSampledFn(period=[0.7, 0.3, 1.5][v], offset=0.0,
                                    fn=ng.UniformRandom(name=name, seed=seed, time_dependent=True))
    if k == "add":
        return _build(spec[1]) + _build(spec[2])
    if k == "mulc":
        return _build(spec[1]) * spec[2]
    if k == "neg":
        return -_build(spec[1])
    if k == "abs":
        return abs(_build(spec[1]))
    if k == "raddc":
        return spec[2] + _build(spec[1])
    raise ValueError(spec)


class _Out:
    def __repr__(self):
        return "<raises ValueError: out of bounds>"


_OUT = _Out()


def _acceptable(kind, v):
    """would a parameter of this kind ('dyn': anything, 'num': numbers, 'bnum': numbers within (-1.5, 60)) return v"""
    if kind == "dyn":
        return True
    if isinstance(v, bool) or not isinstance(v, (int, float)):
        return False
    return kind == "num" or -1.5 <= v <= 60


class _Token:
    def __init__(self, k):
        self.k = k

    def __repr__(self):
        return f"<token {self.k}>"


_TOKENS = [_Token(i) for i in range(7)]


def _ident(spec):
    """identity of the function of time a generator computes; None for a history-dependent stream"""
    k = spec[0]
    if k == "stream":
        return None
    if k in ("scaled", "decay", "square", "inv"):
        return (k, spec[3])                   # deterministic functions of time: name and seed play no role
    if k in KINDS:
        return tuple(spec)
    parts = tuple(_ident(s) if isinstance(s, list) else s for s in spec[1:])
    if any(p is None for p, s in zip(parts, spec[1:]) if isinstance(s, list)):
        return None
    return (k,) + parts


def execute(case):
    res = Result()
    tf = param.Dynamic.time_fn
    param.Dynamic.time_dependent = True
    tf(0, time_type=int)
    del tf._pushed_state[:]
    try:
        return _run(case, res, tf)
    finally:
        param.Dynamic.time_dependent = False
        del tf._pushed_state[:]
        tf(0, time_type=int)


def _run(case, res, tf):
    P = type("P", (param.Parameterized,), {"n0": param.Number(default=0.0), "n1": param.Dynamic(default=0)})
    # Q.n1 has hard bounds: a generated value outside them makes the read raise ValueError - at every read at that time
    Q = type("Q", (param.Parameterized,), {"n0": param.Dynamic(default=0.0), "n1": param.Number(default=0.0, bounds=(-1.5, 60))})
    specs = case["gens"]
    insts = []
    gens = [_build(sp) for sp in specs]
    idents = [_ident(s) for s in specs]
    share = case.get("share")
    if share and share[0] != share[1]:
        src, dst, c = share
        if specs[src][0] == "choice_obj":
            c = 0                  # objects cannot be added to: the generator is shared as it is
        gens[dst] = gens[src] if c == 0 else gens[src] + c
        idents[dst] = idents[src] if c == 0 or idents[src] is None else ("shared_plus", c, idents[src])
        res.label("shared_generator_object")
    for i in range(4):
        cls = P if i < 2 else Q
        if i == 0 and case.get("class_gen"):     # True / "copied"
            o = cls(n0=gens[0])
            o.param["n1"]                   # per-instance Parameter copy, made while the class default is still plain
            P.n1 = gens[1]
            insts.append(o)
            res.label("instance_follows_class_level_generator")
        elif i == 1 and case.get("class_gen") == "copied" and not (share and {1, 3} & {share[0], share[1]}):
            # made after the generator was assigned on the class and given none of its own: it gets a copy of the class's
            # generator, which computes the same function of time (same name and seed)
            o = cls(n0=gens[2])
            gens[3] = o.param.get_value_generator("n1")
            if gens[3] is gens[1]:
                res.fail("C19.harness", "the late instance shares the class-level generator object")
            idents[3] = idents[1]
            if "choice_obj" in json.dumps(specs[1]) and idents[1] is not None:
                idents[3] = ("copy_of", idents[1])       # the copy chooses among copies of the objects: compared by identity
            insts.append(o)
            res.label("instance_with_a_copy_of_the_class_level_generator")
        else:
            insts.append(cls(n0=gens[2 * i], n1=gens[2 * i + 1]))
    table = {}
    raised = {}        # (generator identity, time) -> kinds of parameter on which a read at that time raised
    visits = {}        # key -> list of global read counters
    last_val = {}      # generator object -> last produced value
    last_time = {}     # generator object -> time of the last production
    ever_read = set()  # generator slots read at least once
    st_ = {"reads": 0, "times_seen": [], "revisit": False, "ctx_jump": False, "fraction": False, "kf": False}

    def now():
        return Fraction(tf())

    def forget():
        for d_ in (table, raised, visits, last_val, last_time):
            d_.clear()

    def lk(i, pn):
        # the last-produced value is cached on the generator object (which may sit behind two parameters)
        return id(gens[2 * i + pn])


    def read(i, pn):
        slot = 2 * i + pn
        name = "n%d" % pn
        t = now()
        first_at_minus1 = (slot not in ever_read) and t == -1
        raw = tf()
        undefined = False
        try:
            v = getattr(insts[i], name)
        except ValueError:
            v = _OUT                  # the generated number is outside the hard bounds of this Number
            res.label("generated_value_out_of_bounds")
        except ZeroDivisionError:
            v = _OUT                  # the generator itself is undefined at this time: every read at this time raises
            undefined = True
            res.label("generator_undefined_at_this_time")
        if tf() != raw or type(tf()) is not type(raw):
            res.fail("C19.read_moves_time", f"reading inst{i}.{name} at time {raw!r} left the clock at {tf()!r}")
            tf(raw)
        ever_read.add(slot)
        st_["reads"] += 1
        if idents[slot] is None:
            # a history-dependent stream: one value per time at which it is produced
            k_ = lk(i, pn)
            if v is _OUT:
                # the read raised: what was produced is outside the bounds of this Number
                sk_ = ("num" if pn == 0 else "dyn") if i < 2 else ("dyn" if pn == 0 else "bnum")
                if last_time.get(k_) == t and k_ in last_val and _acceptable(sk_, last_val[k_]):
                    res.fail("C19.repeated_read_differs", f"stream generator behind inst{i}.{name}: the read at time {t} raised, "
                                                          f"the value produced at that time is {last_val[k_]!r}, which this parameter accepts")
                if last_time.get(k_) != t:
                    last_val.pop(k_, None)        # a new value was produced and refused: not known here
                last_time[k_] = t
                st_["times_seen"].append(t)
                return v
            if last_time.get(k_) == t and k_ in last_val:
                if v != last_val[k_]:
                    res.fail("C19.repeated_read_differs", f"stream generator behind inst{i}.{name}: read {v!r} at time {t}, "
                                                          f"the value produced at that time was {last_val[k_]!r}")
            last_val[k_] = v
            last_time[k_] = t
            st_["times_seen"].append(t)
            return v
        key = (idents[slot], t)
        mark = "[first-read-at-minus-one] " if first_at_minus1 else ""
        if first_at_minus1:
            res.label("first_read_at_minus_one")
        sk = ("num" if pn == 0 else "dyn") if i < 2 else ("dyn" if pn == 0 else "bnum")
        if v is _OUT:
            # the read raised: the value of this generator at this time is not acceptable for this parameter - every time
            if key in table and _acceptable(sk, table[key]):
                res.fail("C19.not_a_function_of_time", f"generator {idents[slot]} at time {t}: reading inst{i}.{name} raised, but its "
                                                      f"value at that time is {table[key]!r}, which this parameter accepts")
            raised.setdefault(key, set()).add("dyn" if undefined else sk)     # (undefined: no parameter kind would get a value)
            last_val.pop(lk(i, pn), None)
            last_time[lk(i, pn)] = t
            st_["times_seen"].append(t)
            return v
        for sk2 in raised.get(key, ()):
            if _acceptable(sk2, v):
                res.fail("C19.not_a_function_of_time", f"generator {idents[slot]} at time {t}: inst{i}.{name} yields {v!r} now, but a read "
                                                      f"at this very time raised earlier on a parameter that accepts such a value")
        if key in table:
            if table[key] != v or type(table[key]) is not type(v):
                res.fail("C19.not_a_function_of_time", f"{mark}generator {idents[slot]} at time {t}: read {v!r} on inst{i}.{name}, "
                                                      f"first value seen at that time was {table[key]!r}")
            # non-trivial if another time was visited between the two reads
            if key in visits and any(tt != t for tt in st_["times_seen"][visits[key][-1]:]):
                st_["revisit"] = True
        elif first_at_minus1 and v is None:
            res.fail("C19.not_a_function_of_time", f"{mark}generator {idents[slot]} read for the first time at time -1 returned "
                                                  f"None instead of a value")
            return v
        else:
            table[key] = v
        visits.setdefault(key, []).append(len(st_["times_seen"]))
        st_["times_seen"].append(t)
        last_val[lk(i, pn)] = v
        last_time[lk(i, pn)] = t
        if share and share[0] != share[1] and slot in (share[0], share[1]):
            other = share[1] if slot == share[0] else share[0]
            ok = (idents[other], t)
            if ok in table:
                a, b = (table[key], table[ok]) if slot == share[0] else (table[ok], table[key])
                if isinstance(a, (int, float)) and isinstance(b, (int, float)) and b != a + share[2]:
                    res.fail("C19.shared_generator_disagrees", f"one generator object behind two parameters at time {t}: "
                                                               f"{a!r} and {b!r} (expected second == first + {share[2]})")
        return v

    def tval(n):
        if st_["fraction"]:
            return Fraction(n)
        if st_.get("float"):
            return n * 0.3                # 2.1, 2.4, ... : not exactly representable
        return n

    def run(op, depth):
        k = op[0]
        if st_.get("stop"):
            return
        res.label("op:" + k)
        if k == "jump":
            tf(tval(op[1]))
            st_["times_seen"].append(now())
        elif k == "adv":
            tf.__iadd__(op[1])
            st_["times_seen"].append(now())
        elif k == "back":
            tf.__isub__(op[1])
            st_["times_seen"].append(now())
        elif k == "half":
            if st_["fraction"]:
                tf.__iadd__(Fraction(1, 2))
                st_["times_seen"].append(now())
        elif k == "read":
            read(op[1], op[2])
        elif k == "read2":
            a = read(op[1], op[2])
            b = read(op[1], op[2])
            if a != b and not (a != a and b != b):
                res.fail("C19.repeated_read_differs", f"two consecutive reads of inst{op[1]}.n{op[2]} at time {now()} gave "
                                                      f"{a!r} then {b!r}")
        elif k == "inspect":
            i, pn = op[1], op[2]
            if lk(i, pn) not in last_val:
                return
            v = insts[i].param.inspect_value("n%d" % pn)
            if v != last_val[lk(i, pn)]:
                res.fail("C19.inspect_value", f"inspect_value(inst{i}.n{pn}) gave {v!r}, the last produced value was "
                                              f"{last_val[lk(i, pn)]!r}")
            # inspecting must not advance anything: the next read still agrees with the table (checked by read)
            read(i, pn)
        elif k == "force":
            i, pn = op[1], op[2]
            slot = 2 * i + pn
            if slot not in ever_read:
                return
            try:
                v = insts[i].param.force_new_dynamic_value("n%d" % pn)
            except ZeroDivisionError:
                # the generator is undefined at this time: nothing new was produced
                res.label("generator_undefined_at_this_time")
                last_val.pop(lk(i, pn), None)
                last_time.pop(lk(i, pn), None)
                return
            key = (idents[slot], now())
            if idents[slot] is not None and key in table and table[key] != v:
                res.fail("C19.not_a_function_of_time", f"force_new_dynamic_value(inst{i}.n{pn}) at time {now()} gave {v!r}, "
                                                      f"the value of that generator at that time is {table[key]!r}")
            if idents[slot] is not None:
                table.setdefault(key, v)
            last_val[lk(i, pn)] = v
            last_time[lk(i, pn)] = now()
        elif k == "forceback":
            i, pn = op[1], op[2]
            t0 = tf()
            read(i, pn)
            tf(tval(op[3]))
            st_["times_seen"].append(now())
            run(["force", i, pn], depth)
            tf(t0)
            st_["times_seen"].append(now())
            read(i, pn)
        elif k == "pushsame":
            i, pn = op[1], op[2]
            read(i, pn)
            sub = [["force", i, pn]] if op[3] == "force" else [["jump", op[4]], ["read", i, pn], ["jump", None], ["read", i, pn]]
            if op[3] == "roundtrip":
                sub[2] = ["jumpraw", tf()]
            run(["pushpop", i, sub], depth)
            read(i, pn)
        elif k == "retype":
            T = {"int": int, "fraction": Fraction, "float": float}[op[2]]
            tf(T(op[1]), time_type=T)
            st_["fraction"], st_["float"] = op[2] == "fraction", op[2] == "float"
            st_["times_seen"].append(now())
            # what a generator yields at a time may depend on the time type (TimeSampledFn computes its sample time in it):
            # values seen under another time type are not compared with what follows
            forget()
            st_["retyped"] = True
            # from here on cached values, saved states and the clock may belong to different time types: the rest of the history
            # is not judged, except that the enclosing time contexts must still restore the time they found
            st_["stop"] = True
            res.label("time_type_changed_inside_context")
        elif k == "jumpraw":
            tf(op[1])
            st_["times_seen"].append(now())
        elif k == "pushjump":
            i, pn = op[1], op[2]
            saved = {lk(i, q): (last_val.get(lk(i, q)), last_time.get(lk(i, q))) for q in (0, 1)}
            insts[i].param._state_push()
            tf(tval(op[3]))
            st_["times_seen"].append(now())
            read(i, pn)
            insts[i].param._state_pop()
            for g_, (lv, lt) in saved.items():
                last_time[g_] = lt
                if lt is not None and lv is not None:
                    last_val[g_] = lv
                else:
                    last_val.pop(g_, None)        # (nothing known: the read before the push raised, or there was none)
            read(i, pn)
            st_["ctx_jump"] = True
        elif k == "ctx":
            t0 = tf()
            n0 = len(st_["times_seen"])
            with tf:
                for ch in op[1]:
                    run(ch, depth + 1)
            if tf() != t0 or type(tf()) is not type(t0):
                res.fail("C19.time_context_restore", f"time was {t0!r} before `with time:` and is {tf()!r} after it")
            if st_.pop("retyped", False):
                # the time is back, the time type is not (which the statement does not ask for): from here on the clock holds
                # a time of one type and converts to another - nothing further is judged in this history
                forget()
                st_["stop"] = True
            if any(tt != Fraction(t0) for tt in st_["times_seen"][n0:]):
                st_["ctx_jump"] = True
            st_["times_seen"].append(now())
        elif k == "pushpop":
            i = op[1]
            before = {pn: insts[i].param.inspect_value("n%d" % pn) for pn in (0, 1)}
            saved_t = {lk(i, q): last_time.get(lk(i, q)) for q in (0, 1)}
            insts[i].param._state_push()
            n0 = len(st_["times_seen"])
            t0 = now()
            for ch in op[2]:
                run(ch, depth + 1)
            insts[i].param._state_pop()
            if any(tt != t0 for tt in st_["times_seen"][n0:]):
                st_["ctx_jump"] = True
            for pn in (0, 1):
                v = insts[i].param.inspect_value("n%d" % pn)
                b = before[pn]
                if v != b and not (v != v and b != b):
                    res.fail("C19.state_pop_restore", f"inspect_value(inst{i}.n{pn}) was {b!r} at _state_push and is {v!r} "
                                                      f"after _state_pop")
                if lk(i, pn) in last_val:
                    last_val[lk(i, pn)] = v
                last_time[lk(i, pn)] = saved_t[lk(i, pn)]

    mode = case.get("time_mode") or ("fraction" if case.get("fraction_time") else "int")
    if mode == "fraction":
        tf(0, time_type=Fraction)
        st_["fraction"] = True
        res.label("fraction_time")
    elif mode == "float":
        tf(0.0, time_type=float)
        st_["float"] = True
        res.label("float_time")
    for op in case["ops"]:
        run(op, 0)
    res.nontrivial = st_["revisit"] or st_["ctx_jump"]
    if st_["revisit"]:
        res.label("revisit_after_other_time")
    if st_["ctx_jump"]:
        res.label("jump_inside_context_or_pushpop")
    return res


def _region_minus_one(case, v):
    """KF-C19-1: the 'never read' sentinel is time -1, so a generator read for the first time at time -1
    returns the cached None."""
    return "[first-read-at-minus-one]" in v.detail


REGIONS = {"first_read_at_time_minus_one": _region_minus_one}
