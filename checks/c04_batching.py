"""C04 - batched dispatch defers, coalesces and delivers once on outermost exit.

The program is a tree of nested batch / discard / update-context blocks around assignments, plain
updates, triggers and Event sets on two objects.  A reference batching model derived from the
statement says, for every *window* (a leaf operation, the entry/exit of an update context, the
close of a batch), which watchers must be called there, with which events; the recorded trace is
cut at the same window markers and compared clause by clause.
"""
from hypothesis import strategies as st

from vlib.core import Result
from vlib.dispatch import NAMES, PNAMES, World, equal, pool_value, val_strategy, watcher_spec
from param.parameterized import batch_call_watchers, discard_events

ID = "C04"
LEVEL = "exploration"
RULE = ("Hypothesis-generated trees (depth <=4, <=14 nodes) of batch_call_watchers / discard_events / `with param.update()` "
        "blocks on two objects around sets (repeated, set-and-set-back, same-value), plain multi-key updates, triggers and "
        "Event sets, under 1-6 watchers (multi-parameter, mixed onlychanged, precedence, queued, args/kwargs); oracle = "
        "reference batching model giving per window the watchers that must run and their events (silence while open, once "
        "per watcher at the outermost exit, final value, precedence, discard, trigger, restore). Non-trivial = a context "
        "nested in another, or a trigger/discard inside an open batch, or >=2 sets of one parameter inside one batch, or a "
        "multi-parameter watcher receiving >=2 names; distinct = case hash. Two side scenarios ride along in a third of the cases each: update() contexts over linked parameters, and discard_events used inside a callback of a round in which an earlier (queued) watcher already queued events. Also: the value of num (whose bounds / doc have watchers of their own) is set, so one batch can hold events of two kinds for one parameter; the Event fired at class level through a subclass that inherits it; in the callback scenario the second watcher may issue param.trigger instead of / besides the discard block.")
ASSUMPTIONS = [
    "'qualifying' is judged per set against the value it replaced, per watcher; extra events are tolerated for watched "
    "names that had some set inside the batch (the statement allows both readings)",
    "order inside one flush is checked as non-decreasing precedence only",
    "callbacks do not assign (cascades are C03's subject)",
    "Event parameter: its transient True is asserted only for trigger/update/set issued outside any open context",
]
SIZES = {"quick": 1000, "thorough": 8000}

PN = ["a", "b", "c", "ev", "num"]


def _leaf(fam):
    _val = val_strategy(fam)
    t = st.integers(0, 1)
    n = st.integers(0, 2)
    return st.one_of(
        st.tuples(st.just("set"), t, n, _val),
        st.tuples(st.just("set"), t, n, _val),
        st.tuples(st.just("set"), t, n, _val),
        st.tuples(st.just("update"), t, st.lists(st.tuples(n, _val), min_size=1, max_size=3)),
        st.tuples(st.just("trigger"), t, st.lists(st.integers(0, 3), min_size=1, max_size=3, unique=True)),
        st.tuples(st.just("event"), t, st.sampled_from(["set", "update"])),
        # the Event fired at class level through a subclass that inherits it (the instances belong to the base class)
        st.tuples(st.just("cls_event"), t, st.sampled_from(["set", "update", "trigger"])),
        st.tuples(st.just("slot"), t, st.sampled_from(["bounds", "doc"]), st.integers(0, 3)),
        # the *value* of num (the parameter whose bounds / doc have watchers of their own)
        st.tuples(st.just("setnum"), t, st.integers(0, 10)),
    ).map(list)


def _tree(fam):
    def extend(children):
        kids = st.lists(children, min_size=0, max_size=4)
        t = st.integers(0, 1)
        return st.one_of(
            st.tuples(st.just("batch"), t, kids).map(list),
            st.tuples(st.just("batch"), t, kids).map(list),
            st.tuples(st.just("discard"), t, kids).map(list),
            st.tuples(st.just("updctx"), t, st.lists(st.tuples(st.integers(0, 2), val_strategy(fam)), min_size=1,
                                                     max_size=2), kids).map(list),
        )
    return st.recursive(_leaf(fam), extend, max_leaves=10)


@st.composite
def _case(draw):
    fam = draw(st.integers(0, 4))
    ws = draw(st.lists(watcher_spec(allow_slot=True, allow_class=False, fam=fam), min_size=1, max_size=6))
    for w in ws:
        w["script"] = []
        if draw(st.integers(0, 5)) == 0:
            w["raise_skip"] = True                          # the callback ends by raising param.Skip
        if w["what"] != "value":
            w["names"] = [4]                                # a watcher of a Parameter attribute of `num` (bounds / doc)
        elif draw(st.integers(0, 4)) == 0:
            w["names"] = sorted(set(w["names"]) | {3})     # also watches the Event parameter
        elif draw(st.integers(0, 3)) == 0:
            w["names"] = sorted(set(w["names"]) | {4})     # also watches the value of num
    prog = draw(st.lists(_tree(fam), min_size=1, max_size=5))
    if draw(st.integers(0, 3)) == 0:
        # a batch whose events are all for ONE parameter: first the value it already has (only unfiltered watchers
        # qualify), then a change - so the watchers enter the queue in an order unrelated to their precedence
        t_ = draw(st.integers(0, 1))
        n_ = draw(st.integers(0, 2))
        v_ = draw(val_strategy(fam))
        prog.insert(draw(st.integers(0, len(prog))), ["batch", t_, [["set", t_, n_, v_]]])
        prog.insert(draw(st.integers(0, len(prog))),
                    ["batch", t_, [["set", t_, n_, v_], ["set", t_, n_, draw(val_strategy(fam))]]])
    if draw(st.integers(0, 3)) == 0:
        # one batch raises events of two kinds for ONE parameter: its value and one of its attributes (bounds / doc), each
        # with a watcher of its own
        t_ = draw(st.integers(0, 1))
        which = draw(st.sampled_from(["bounds", "doc"]))
        base = {"target": t_, "onlychanged": draw(st.booleans()), "queued": draw(st.booleans()), "precedence": draw(st.integers(0, 2)),
                "mode": "args", "script": []}
        ws.append(dict(base, names=sorted({4} | set(draw(st.sets(st.integers(0, 2), max_size=1)))), what="value"))
        ws.append(dict(base, names=[4], what=which, precedence=draw(st.integers(0, 2))))
        kids = [["setnum", t_, draw(st.integers(2, 10))], ["slot", t_, which, draw(st.integers(1, 3))]]
        if draw(st.booleans()):
            kids.reverse()
        kids.insert(draw(st.integers(0, 2)), draw(_leaf(fam)))
        prog.insert(draw(st.integers(0, len(prog))), ["batch", t_, kids])
    links = None
    if draw(st.integers(0, 2)) == 0:
        # a second, small scenario for "update(...) as a context manager restores the previous values AND links"
        links = {
            "linked": draw(st.lists(st.booleans(), min_size=2, max_size=2)),
            "late": draw(st.booleans()),
            "form": draw(st.sampled_from(["kw", "map", "mapkw", "kwmap"])),
            "keys": [list(k) for k in draw(st.lists(st.tuples(st.integers(0, 2), st.integers(1, 9)), min_size=1, max_size=3,
                                                     unique_by=lambda k: k[0]))],
            "bump_inside": draw(st.booleans()),
            # a Dynamic parameter holding a number generator is among the names of the context
            "gen": draw(st.booleans()),
        }
    cbd = None
    if draw(st.integers(0, 2)) == 0:
        # a third small scenario: discard_events used *inside a callback*, in a dispatch round in which a queued watcher
        # that ran earlier has left events in the queue ("... and nothing queued before it")
        cbd = {
            "first_queued": draw(st.sampled_from([True, True, False])),
            "first_sets": draw(st.lists(st.integers(1, 9), min_size=1, max_size=2)),       # values given to b by the first watcher
            "discard_sets": draw(st.lists(st.integers(1, 9), min_size=0, max_size=2)),     # values given to c inside the discard block
            "second_queued": draw(st.booleans()),
            "same_precedence": draw(st.booleans()),
            "outer": draw(st.sampled_from([None, None, "batch", "update"])),
            "rounds": draw(st.integers(1, 2)),
            # what the second watcher does: a discard block, param.trigger('c'), or both
            "second_does": draw(st.sampled_from(["discard", "discard", "trigger", "both"])),
        }
    return {"fam": fam, "watchers": ws, "prog": prog, "links": links, "cb_discard": cbd}


def strategy(tier):
    return _case()


class _W(World):
    """World whose 4th watched name is the Event parameter 'ev'; index 4 is 'num' (slot watchers)."""

    def __init__(self, specs):
        super().__init__(specs, with_event=True, pnames=["a", "b", "c", "ev", "num"])

    def snapshot(self, tidx):
        t = self.targets[tidx]
        return tuple(getattr(t, n) for n in NAMES) + (t.ev,)


def _names(spec):
    if spec["what"] != "value":
        return ["num:" + spec["what"]]      # slot watchers live in their own name space
    return [PN[i] for i in spec["names"]]


class Model:
    def __init__(self, specs):
        self.specs = specs
        self.vals = [dict({n: 0 for n in NAMES}, num=1), dict({n: 0 for n in NAMES}, num=1)]
        self.stack = [[], []]          # per target: open context kinds ('batch' | 'discard')
        self.pending = [{}, {}]        # per target: w -> {name: dict(new, typ)}
        self.touched = [set(), set()]  # names set (by anything) since the outermost context opened
        self.tainted = [False, False]  # a trigger was issued inside an open, non-discarding context (KF-C04-1)
        self.windows = []              # (window id, target or None, expected calls dict w -> {...}, flags)
        self.labels = set()
        self.sets_in_batch = [{}, {}]
        self.slots = [{"bounds": (0, 10), "doc": "d0"}, {"bounds": (0, 10), "doc": "d0"}]
        self.live_new = [{}, {}]       # per target: name -> value of the last non-discarded set since the outermost open

    def watchers(self, t, name):
        ws = [w for w, sp in enumerate(self.specs) if sp["target"] == t and name in _names(sp)]
        return sorted(ws, key=lambda w: self.specs[w]["precedence"])

    def discarding(self, t):
        return "discard" in self.stack[t]

    def _event(self, t, name, old, new, exp, typ=None):
        """One assignment-like event on (t, name); exp collects immediate calls when nothing is open."""
        for w in self.watchers(t, name):
            sp = self.specs[w]
            if typ != "triggered" and sp["onlychanged"]:
                eq = equal(old, new)
                if eq is None:
                    raise Unknown()
                if eq:
                    continue
            ty = typ or ("changed" if sp["onlychanged"] else "set")
            if self.stack[t]:
                if self.discarding(t):
                    continue
                self.pending[t].setdefault(w, {})[name] = {"new": new, "typ": ty}
            else:
                exp.setdefault(w, {})[name] = {"new": new, "typ": ty}

    def set(self, t, name, v, exp):
        old = self.vals[t][name] if name != "ev" else False
        if name != "ev":
            self.vals[t][name] = v
        if self.stack[t]:
            self.touched[t].add(name)
            if not self.discarding(t):
                self.live_new[t][name] = v
            k = self.sets_in_batch[t].get(name, 0) + 1
            self.sets_in_batch[t][name] = k
            if k >= 2:
                self.labels.add("repeated_set_in_batch")
        self._event(t, name, old, v, exp)

    def set_slot(self, t, which, new, exp):
        old = self.slots[t][which]
        self.slots[t][which] = new
        name = "num:" + which
        if self.stack[t]:
            self.touched[t].add(name)
            if not self.discarding(t):
                self.live_new[t][name] = new
        self._event(t, name, old, new, exp)

    def open(self, t, kind):
        if self.stack[t]:
            self.labels.add("nested_context")
        if kind == "discard" and self.stack[t]:
            self.labels.add("discard_inside_batch")
        self.stack[t].append(kind)

    def close(self, t):
        """Returns the calls expected at this close (non-empty only at the outermost exit)."""
        self.stack[t].pop()
        exp = {}
        if not self.stack[t]:
            exp = self.pending[t]
            self.pending[t] = {}
            opt = set(self.touched[t])
            self.touched[t] = set()
            self.sets_in_batch[t] = {}
            live = self.live_new[t]
            self.live_new[t] = {}
            self.live_new_closed = live
            for w, evs in exp.items():
                if len(evs) >= 2:
                    self.labels.add("multi_name_delivery")
                for n, info in evs.items():
                    # "carrying the final value": the value installed by the last assignment whose event was
                    # not discarded - or, when that assignment did not qualify for this (changes-only)
                    # watcher, the equal value of its own last qualifying event
                    info["alt"] = live.get(n, info["new"])
            return exp, opt
        return exp, set()


class Unknown(Exception):
    pass


def execute(case):
    res = Result()
    specs = case["watchers"]
    world = _W(specs)
    model = Model(specs)
    win = {"n": 0}
    checks = []       # (wid, target-or-None, expected, optional names, tainted, kind)

    def window(kind, t, expected, optional=frozenset(), ev_true=False):
        checks.append((win["n"], kind, t, expected, set(optional), model.tainted[t] if t is not None else False, ev_true,
                       bool(model.stack[t])))

    def begin():
        win["n"] += 1
        world.trace.append(("win", win["n"]))
        return win["n"]

    def run(node):
        kind = node[0]
        t = node[1]
        obj = world.targets[t]
        if kind == "set":
            begin()
            v = pool_value(node[3])
            exp = {}
            model.set(t, NAMES[node[2]], v, exp)
            setattr(obj, NAMES[node[2]], v)
            window("set", t, exp)
        elif kind == "setnum":
            begin()
            exp = {}
            model.set(t, "num", node[2], exp)
            obj.num = node[2]
            model.labels.add("value_of_num_set_inside_context" if model.stack[t] else "value_of_num_set")
            window("set", t, exp)
        elif kind == "cls_event":
            begin()
            if node[2] == "update":
                world.W2.param.update(ev=True)
            elif node[2] == "trigger":
                world.W2.param.trigger("ev")
            else:
                world.W2.ev = True
            window("cls_event", t, {})            # no watcher of the instances is concerned
            if world.W2.ev is not False or world.W.ev is not False:
                res.fail("C04.event_not_reset", f"class-level Event reads {world.W.ev!r} (base) / {world.W2.ev!r} (subclass) "
                                                f"after {node!r}")
            model.labels.add("class_level_event_through_subclass")
        elif kind == "slot":
            begin()
            which = node[2]
            newv = (0, 10 + node[3]) if which == "bounds" else f"d{node[3]}"
            exp = {}
            model.set_slot(t, which, newv, exp)
            setattr(obj.param.num, which, newv)
            model.labels.add("slot_set_inside_context" if model.stack[t] else "slot_set")
            window("slot", t, exp)
        elif kind == "update":
            begin()
            kv = {}
            for n, vi in node[2]:
                kv[NAMES[n]] = pool_value(vi)
            model.open(t, "batch")
            for n, v in kv.items():
                model.set(t, n, v, {})
            exp, opt = model.close(t)
            obj.param.update(**kv)
            window("update", t, exp, opt)
        elif kind == "event":
            begin()
            exp = {}
            outer_open = bool(model.stack[t])
            if node[2] == "update":
                model.open(t, "batch")
                model.set(t, "ev", True, {})
                exp, _opt = model.close(t)
                obj.param.update(ev=True)
            else:
                model.set(t, "ev", True, exp)
                obj.ev = True
            window("event", t, exp, ev_true=not outer_open)
            if obj.ev is not False:
                res.fail("C04.event_not_reset", f"Event parameter reads {obj.ev!r} after {node!r}")
        elif kind == "trigger":
            begin()
            names = [PN[i] for i in node[2]]
            exp = {}
            if model.stack[t] and not model.discarding(t):
                model.tainted[t] = True
                model.labels.add("trigger_inside_batch")
            if model.stack[t] and model.discarding(t):
                model.labels.add("trigger_inside_discard")
            before = world.snapshot(t)
            # trigger = a batch that re-announces the current values with type 'triggered'
            was_open = bool(model.stack[t])
            model.open(t, "batch")
            for n in names:
                cur = True if n == "ev" else model.vals[t][n]
                model._event(t, n, cur, cur, {}, typ="triggered")
            if was_open:
                model.stack[t].pop()
                exp = {}
            else:
                exp, _ = model.close(t)
            obj.param.trigger(*names)
            window("trigger", t, exp, ev_true=not was_open)
            after = world.snapshot(t)
            if any(x is not y for x, y in zip(before, after)):
                res.fail("C04.trigger_changed_value", f"trigger{names!r} changed values {before!r} -> {after!r}")
        elif kind in ("batch", "discard"):
            model.open(t, kind)
            cm = batch_call_watchers(obj) if kind == "batch" else discard_events(obj)
            with cm:
                for ch in node[2]:
                    run(ch)
                begin()
                exp, opt = model.close(t)
            window("close_" + kind, t, exp, opt)
            if not model.stack[t]:
                model.tainted[t] = False
        elif kind == "updctx":
            kv = {NAMES[n]: pool_value(vi) for n, vi in node[2]}
            saved = {n: getattr(obj, n) for n in kv}
            begin()
            model.open(t, "batch")
            for n, v in kv.items():
                model.set(t, n, v, {})
            exp, opt = model.close(t)
            cm = obj.param.update(**kv)
            window("updctx_enter", t, exp, opt)
            with cm:
                for ch in node[3]:
                    run(ch)
                begin()
                model.open(t, "batch")
                for n, v in saved.items():
                    model.set(t, n, v, {})
                exp, opt = model.close(t)
            window("updctx_exit", t, exp, opt)
            for n, v in saved.items():
                if getattr(obj, n) is not v:
                    res.fail("C04.update_context_restore", f"after `with update({list(kv)})` {n} is {getattr(obj, n)!r}, "
                                                           f"was {v!r} before entry")
            model.labels.add("update_context")

    try:
        for node in case["prog"]:
            run(node)
    except Unknown:
        res.dontcare += 1
        return res
    # ---- compare per window ------------------------------------------------
    segs = {}
    cur = 0
    for e in world.trace:
        if e[0] == "win":
            cur = e[1]
        elif e[0] == "enter":
            segs.setdefault(cur, []).append(e)
    if 0 in segs:
        res.fail("C04.delivery_outside_window", f"deliveries before the first operation: {segs[0]!r}")
    for wn, kind, t, expected, optional, tainted, ev_true, open_after in checks:
        mark = "[trigger-in-batch] " if tainted else ""
        got = segs.get(wn, [])
        where = f"{mark}window {wn} ({kind} on t{t})"
        got_w = [e[1] for e in got]
        # deliveries to watchers of *other* targets never belong here (nothing cross-target is generated)
        for e in got:
            if specs[e[1]]["target"] != t:
                res.fail("C04.foreign_delivery", f"{where}: watcher w{e[1]} of another object ran: {e!r}")
        exp_w = sorted(expected)
        if sorted(got_w) != exp_w:
            missing = [w for w in exp_w if w not in got_w]
            extra = [w for w in got_w if w not in exp_w]
            dup = [w for w in set(got_w) if got_w.count(w) > 1]
            if open_after and got_w:
                clause = "C04.ran_while_context_open"
            elif dup:
                clause = "C04.watcher_called_twice"
            elif missing:
                clause = "C04.missing_call"
            else:
                clause = "C04.unexpected_call"
            res.fail(clause, f"{where}: expected calls to watchers {exp_w}, got {got_w}\n   deliveries: "
                             f"{[(e[1], e[2]) for e in got]!r}")
            continue
        precs = [specs[w]["precedence"] for w in got_w]
        if precs != sorted(precs):
            res.fail("C04.precedence_order", f"{where}: watchers ran in order {got_w} with precedences {precs}")
        for e in got:
            w = e[1]
            evs = e[2]
            if specs[w]["what"] != "value":
                evs = [("num:" + specs[w]["what"],) + tuple(r[1:]) for r in evs]
            names = [r[0] for r in evs]
            if len(names) != len(set(names)):
                res.fail("C04.duplicate_event", f"{where}: w{w} got several events for one parameter: {evs!r}")
            for n, info in expected[w].items():
                hit = [r for r in evs if r[0] == n]
                if not hit:
                    res.fail("C04.missing_event", f"{where}: w{w} got no event for {n}: {evs!r}")
                    continue
                r = hit[0]
                if n.startswith("num:"):
                    if r[2] != info["new"] and r[2] != info.get("alt", info["new"]):
                        res.fail("C04.final_value", f"{where}: w{w} event for {n} carries {r[2]!r}, final value is {info['new']!r}")
                elif r[2] is not info["new"] and r[2] is not info.get("alt", info["new"]) and not (n == "ev" and r[2] is True):
                    res.fail("C04.final_value", f"{where}: w{w} event for {n} carries {r[2]!r}, final value is {info['new']!r}")
                if r[3] is not None and r[3] != info["typ"]:
                    both = kind.startswith("close") or kind.startswith("upd")
                    if info["typ"] == "triggered" or r[3] == "triggered" or not both:
                        res.fail("C04.event_type", f"{where}: w{w} event for {n} has type {r[3]!r}, expected {info['typ']!r}")
            for n in names:
                if n not in expected[w] and n not in optional:
                    res.fail("C04.spurious_event", f"{where}: w{w} got an event for {n}, which was not set in this batch: {evs!r}")
            if ev_true and "ev" in expected[w] and e[3][3] is not True:
                res.fail("C04.event_transient_true", f"{where}: Event parameter read {e[3][3]!r} inside the callback")
    # ---- final values --------------------------------------------------------
    for t in (0, 1):
        for n in NAMES:
            if getattr(world.targets[t], n) is not model.vals[t][n]:
                res.fail("C04.final_values", f"t{t}.{n} is {getattr(world.targets[t], n)!r}, model {model.vals[t][n]!r}")
        p = world.targets[t].param
        if p._BATCH_WATCH or p._events or p._state_watchers or p._TRIGGER:
            res.fail("C04.state_left", f"t{t}: dispatch state not clean after the program: batch={p._BATCH_WATCH} "
                                       f"events={p._events!r} trigger={p._TRIGGER}")
    if case.get("links"):
        _links_scenario(res, case["links"])
    if case.get("cb_discard"):
        _cb_discard_scenario(res, case["cb_discard"])
    for l in model.labels:
        res.label(l)
    res.nontrivial = bool(model.labels & {"nested_context", "trigger_inside_batch", "discard_inside_batch",
                                          "repeated_set_in_batch", "multi_name_delivery", "trigger_inside_discard"})
    return res


def _region_trigger_in_batch(case, v):
    """KF-C04-1: a trigger issued while a batch/update is open on the same object (and not inside a
    discard) is delivered at the flush with type 'changed'/'set' instead of 'triggered' (pinned by
    tests/testwatch.py::test_simple_trigger_when_batched).  Only the event-type clause, only in windows
    between that trigger and the outermost exit."""
    return v.clause == "C04.event_type" and "[trigger-in-batch]" in v.detail


REGIONS = {"trigger_inside_open_batch": _region_trigger_in_batch}


def _cb_discard_scenario(res, c):
    """Round: `o.a = k` reaches watcher F (sets b; when queued its events stay in the queue until the round ends) and then
    watcher D, which opens discard_events(o) and sets c inside it.  The events for b were queued before the discard block:
    the watcher of b must still be called (once, final value); the events for c were raised inside it: never delivered."""
    import param
    O = type("O", (param.Parameterized,), {"a": param.Parameter(0), "b": param.Parameter(0), "c": param.Parameter(0)})
    o = O()
    log = []

    rnd = {"k": 0, "n": 0}

    def first(*evs):
        for v in c["first_sets"]:
            rnd["n"] += 1
            o.b = ("b", v, rnd["k"], rnd["n"])          # a fresh, unequal value every time

    does = c.get("second_does", "discard")

    def second(*evs):
        if does in ("discard", "both"):
            with discard_events(o):
                for v in c["discard_sets"]:
                    rnd["n"] += 1
                    o.c = ("c", v, rnd["k"], rnd["n"])
        if does in ("trigger", "both"):
            o.param.trigger("c")

    o.param.watch(first, "a", queued=c["first_queued"], precedence=0)
    o.param.watch(second, "a", queued=c["second_queued"], precedence=0 if c["same_precedence"] else 1)
    o.param.watch(lambda *evs: log.append(("b", [e.new for e in evs], [e.type for e in evs])), "b")
    o.param.watch(lambda *evs: log.append(("c", [e.new for e in evs], [e.type for e in evs])), "c")
    res.label("cb_discard:first_queued" if c["first_queued"] else "cb_discard:first_immediate")
    res.label("cb_discard:second_does_" + does)
    for k in range(1, c["rounds"] + 1):
        del log[:]
        rnd["k"] = k
        if c["outer"] == "batch":
            with batch_call_watchers(o):
                o.a = k
                if log:
                    res.fail("C04.ran_while_context_open", f"cb_discard {c!r}: deliveries inside the open batch: {log!r}")
        elif c["outer"] == "update":
            o.param.update(a=k)
        else:
            o.a = k
        bcalls = [e for e in log if e[0] == "b"]
        ccalls = [e for e in log if e[0] == "c"]
        if does != "discard":
            # the trigger issued by the second watcher announces c (its current value) once, as 'triggered' - and concerns c only
            if len(ccalls) != 1 or ccalls[0][1][-1] is not o.c:
                res.fail("C04.missing_call" if not ccalls else "C04.watcher_called_twice",
                         f"cb_discard {c!r}, round {k}: param.trigger('c') issued by a watcher: deliveries for c {ccalls!r}, c is {o.c!r}")
            elif c["outer"] is None and not c["second_queued"] and ccalls[0][2] != ["triggered"]:
                # (a queued watcher runs inside a batch of its own: a trigger issued there is KF-C04-1's subject)
                res.fail("C04.event_type", f"cb_discard {c!r}, round {k}: the triggered event for c has type {ccalls[0][2]!r}")
            if c["first_queued"] and not c["second_queued"] and c["outer"] is None and bcalls and ccalls:
                # what the queued first watcher assigned is announced once all the watchers of a have run: after the trigger
                # the second one issued in its turn
                if log.index(bcalls[0]) < log.index(ccalls[0]):
                    res.fail("C04.ran_while_context_open", f"cb_discard {c!r}, round {k}: the assignment of b made by the queued first "
                                                           f"watcher was announced before the later watcher of a had finished "
                                                           f"(its param.trigger('c') flushed the queue): {log!r}")
            if any(ty == "triggered" for e in bcalls for ty in e[2]):
                res.fail("C04.event_type", f"cb_discard {c!r}, round {k}: the assignment of b made by the first watcher was delivered "
                                           f"as 'triggered' because another watcher triggered c meanwhile: {bcalls!r}")
        elif ccalls:
            res.fail("C04.discarded_event_delivered", f"cb_discard {c!r}, round {k}: the watcher of c was called for assignments made "
                                                      f"inside discard_events: {ccalls!r}")
        if not bcalls:
            res.fail("C04.queued_event_dropped_by_discard", f"cb_discard {c!r}, round {k}: b was assigned by the first watcher before "
                                                            f"the discard block of the second one, but the watcher of b was never called")
        elif bcalls[-1][1][-1] is not o.b:
            res.fail("C04.final_value", f"cb_discard {c!r}, round {k}: last delivery for b carries {bcalls[-1][1]!r}, b is {o.b!r}")
        p = o.param
        if p._BATCH_WATCH or p._events or p._state_watchers:
            res.fail("C04.state_left", f"cb_discard {c!r}, round {k}: dispatch state not clean: events={p._events!r}")


def _links_scenario(res, lk):
    """`with t.param.update(...)` over linked parameters: on exit the previous values and links are back."""
    import param
    S = type("S", (param.Parameterized,), {"v": param.Number(1), "w": param.Number(2)})
    calls = []

    def on_any(self):
        calls.append((self.r1, self.r2, self.p))
    T = type("T", (param.Parameterized,), {"r1": param.Number(0, allow_refs=True), "r2": param.Number(0, allow_refs=True),
                                           "p": param.Number(0), "g": param.Number(0),
                                           # one dependent method over linked and plain parameters alike
                                           "on_any": param.depends("r1", "r2", "p", watch=True)(on_any)})
    s = S()
    srcs = {"r1": (s.param.v, "v"), "r2": (s.param.w, "w")}
    kw = {n: srcs[n][0] for n, on in zip(("r1", "r2"), lk["linked"]) if on}
    if lk["late"]:
        t = T()
        for n, ref in kw.items():
            setattr(t, n, ref)
    else:
        t = T(**kw)
    names = ["r1", "r2", "p"]
    upd = {names[i]: 100 + v for i, v in lk["keys"]}
    gen = None
    if lk.get("gen"):
        class _Counter:
            def __init__(self):
                self.n = 0

            def __call__(self):
                self.n += 1
                return self.n
        gen = _Counter()
        t.g = gen
        upd["g"] = 55
        res.label("links:generator_in_context")
    before = {n: getattr(t, n) for n in names}
    items = list(upd.items())
    if lk["form"] == "kw" or len(items) < 2 and lk["form"] in ("mapkw", "kwmap"):
        cm = t.param.update(**upd)
    elif lk["form"] == "map":
        cm = t.param.update(upd)
    elif lk["form"] == "mapkw":
        cm = t.param.update(dict(items[:1]), **dict(items[1:]))
    else:
        cm = t.param.update(dict(items[1:]), **dict(items[:1]))
    res.label(f"links:{lk['form']}")
    del calls[:]
    with cm:
        if len(calls) > 1:
            res.fail("C04.watcher_called_twice", f"entering `with update({lk['form']}: {upd})`: the method depending on all of them ran "
                                                 f"{len(calls)} times: {calls!r}")
        for n, v in upd.items():
            if getattr(t, n) != v:
                res.fail("C04.update_context_value", f"inside `with update(...)` {n} is {getattr(t, n)!r}, expected {v!r}")
        if lk["bump_inside"]:
            s.v += 10
        del calls[:]
    if len(calls) > 1:
        res.fail("C04.watcher_called_twice", f"leaving `with update({lk['form']}: {upd})` (linked: {sorted(kw)}): the method depending on "
                                             f"all of them ran {len(calls)} times for the one restore: {calls!r}")
    elif not calls and any(getattr(t, n) != v for n, v in upd.items()):
        res.fail("C04.missing_call", f"leaving `with update({lk['form']}: {upd})` changed values but the dependent method did not run")
    for n in names:
        if n in upd and not (lk["bump_inside"] and n == "r1" and n in kw):
            if getattr(t, n) != before[n]:
                res.fail("C04.update_context_restore", f"after `with update({lk['form']}: {upd})` {n} is {getattr(t, n)!r}, "
                                                       f"was {before[n]!r} before entry")
    if gen is not None:
        if t.param.get_value_generator("g") is not gen:
            res.fail("C04.update_context_restore", f"after `with update({lk['form']}: {upd})` the Dynamic parameter g holds "
                                                   f"{t.param.get_value_generator('g')!r} instead of the generator it had before")
        elif gen.n != 0:
            res.fail("C04.update_context_restore", f"the update() context drew {gen.n} value(s) from the generator held by g")
    # links are back: every linked parameter follows its source again, unlinked ones do not move
    s.param.update(v=s.v + 1, w=s.w + 1)
    for n in ("r1", "r2"):
        src = getattr(s, srcs[n][1])
        if n in kw:
            if getattr(t, n) != src:
                res.fail("C04.update_context_links", f"after `with update({lk['form']}: {upd})` the link of {n} is gone: "
                                                     f"{n}={getattr(t, n)!r}, source={src!r}")
        elif n in upd and getattr(t, n) != before[n]:
            res.fail("C04.update_context_restore", f"unlinked {n} moved after the context: {getattr(t, n)!r}")
