"""C08 - a linked parameter mirrors its reference until it is overridden."""
from hypothesis import strategies as st

from vlib import refworld as rw
from vlib.core import Result

ID = "C08"
LEVEL = "exploration"
RULE = ("Hypothesis-generated histories (<=12 ops) over two sources and one target with x, y (Number), t (String), lst (List, "
        "nested_refs), d (Dict, nested_refs): references of every kind (Parameter, bind of one or two parameters, depends "
        "function, dependent method depending on another dependent method, rx expression, nested list/dict, a bound function that skips - raises Skip - for some source values) given in the constructor or assigned later; source updates (valid and "
        "occasionally invalid for the target), source batches, relinks, overrides with plain values, `with target.param.update()` "
        "contexts over one or two names given as keywords, a mapping or both, with source updates inside, param.trigger on linked and unlinked names, linked parameters made constant on the instance; rx references that raise for some source values; oracle = closure model of each live link evaluated on model source values, compared "
        "after every op, overridden names keep their plain value for good, and a census of the internal watchers the target "
        "keeps on each source (none when no live link depends on that source). Non-trivial = >=2 linked parameters and a "
        "relink/override of one of them followed by updates of the old and new sources; or a link made after construction; or a "
        "nested reference; distinct = case hash. Round-4 additions: a per_instance=False target parameter, an on_init method of the target that overrides a linked parameter or moves a source during construction, sources starting from values for which a constructor reference skips, overrides made by a callback while param.trigger runs, update() given a list / an iterator of pairs, and a side scenario with two targets linked to one source where a watcher of the first overrides / relinks a parameter of the second while the source announces a batch.")
ASSUMPTIONS = [
    "after a source value that is invalid for the target a name is not judged until one of its sources is updated again with a "
    "valid value; leaving an update() context while the restored reference resolves to an invalid value ends the case",
    "read-only inspection of the sources' watcher tables for the census",
]
SIZES = {"quick": 1500, "thorough": 10000}

TN = ["x", "y", "t", "lst", "d", "z"]
_tn = st.sampled_from(TN)


@st.composite
def _link(draw):
    n = draw(_tn)
    if n in ("x", "y", "z") and draw(st.integers(0, 4)) == 0:
        return [n, draw(st.one_of(rw.skip_ref, rw.div_ref))]
    return [n, draw(rw.ref_for(n))]


@st.composite
def _op(draw, depth=0):
    kind = draw(st.sampled_from(["src", "src", "src", "src", "batch", "relink", "relink", "override", "updctx", "trigger"] if depth == 0
                                else ["src", "src", "batch", "trigger"]))
    if kind == "trigger":
        if depth == 0 and draw(st.integers(0, 3)) == 0:
            # the linked parameter is made constant on this instance only: its link goes on feeding it
            return ["inst_const", draw(st.sampled_from(["x", "y", "t"]))]
        if depth == 0 and draw(st.integers(0, 3)) == 0:
            # a callback of the triggered parameter overrides another (possibly linked) parameter with a plain value
            n = draw(st.sampled_from(["x", "y", "t"]))
            return ["trigger_cb", n, draw(st.sampled_from([m for m in ("x", "y", "t") if m != n])), draw(st.integers(0, 9))]
        return ["trigger", draw(st.lists(_tn, min_size=1, max_size=2, unique=True)), draw(st.booleans())]
    if kind == "src":
        pn = draw(st.sampled_from(["v", "w", "s"]))
        val = draw(st.one_of(st.integers(-20, 60), st.integers(-20, 60), st.just(0))) if pn != "s" else draw(st.sampled_from(["a", "b", "cc"]))
        if pn != "s" and draw(st.integers(0, 5)) == 0:
            val = 5000            # invalid for the Number targets (bounds +-1000)
        return ["src", draw(st.integers(0, 1)), pn, val]
    if kind == "batch":
        return ["batch", draw(st.integers(0, 1)), draw(st.integers(-20, 60)), draw(st.integers(-20, 60))]
    if kind == "relink":
        return ["relink"] + draw(_link())
    if kind == "override":
        n = draw(_tn)
        return ["override", n, draw(st.integers(0, 9))]
    n = draw(st.sampled_from(["x", "y", "t"]))
    op = ["updctx", n, draw(st.integers(0, 9)), draw(st.lists(_op(depth=1), max_size=3))]
    if draw(st.booleans()):
        # a second name in the same call, and the ways update() accepts its arguments
        n2 = draw(st.sampled_from([m for m in ("x", "y", "t") if m != n]))
        op += [n2, draw(st.integers(0, 9)), draw(st.sampled_from(["kw", "mapping", "mixed", "mixed_rev", "pairs", "iterator"]))]
    return op


@st.composite
def _case(draw):
    ctor = draw(st.lists(_link(), max_size=3, unique_by=lambda l: l[0]))
    ops = draw(st.lists(_op(), min_size=1, max_size=12))
    if draw(st.integers(0, 5)) == 0:
        # a link whose evaluation fails for a while because of an operand (not the root) of its expression, then recovers
        n = draw(st.sampled_from(["x", "y"]))
        si, sj = draw(st.integers(0, 1)), draw(st.integers(0, 1))
        pi, pj = draw(st.sampled_from([("v", "w"), ("w", "v")]))
        ctor = [l for l in ctor if l[0] != n] + [[n, ["rxdiv", si, pi, sj, pj]]]
        at = draw(st.integers(0, len(ops)))
        ops[at:at] = [["src", sj, pj, 0], ["src", sj, pj, draw(st.integers(1, 9))], ["src", si, pi, draw(st.integers(10, 60))]]
    case = {"ctor": ctor, "ops": ops}
    if draw(st.integers(0, 2)) == 0:
        # the sources start from other values (negative ones make the skipping references skip from the very beginning)
        case["src_init"] = [[draw(st.sampled_from([-5, -1, 1, 3])), draw(st.sampled_from([-5, -1, 2, 4]))] for _ in range(2)]
    if draw(st.integers(0, 3)) == 0:
        # side scenario: two targets linked to one source; a watcher of the first overrides / relinks a parameter of the second
        # while the source is announcing a batch
        case["two_targets"] = {
            "action": draw(st.sampled_from(["override", "relink"])),
            "first_made_first": draw(st.booleans()),
            "batches": draw(st.lists(st.tuples(st.sampled_from([5, 6, 500, 8, 700]), st.integers(0, 9), st.sampled_from(["update", "batch", "single"])),
                                     min_size=1, max_size=5).map(lambda l: [list(x) for x in l])),
        }
    if ctor and draw(st.integers(0, 3)) == 0:
        # an on_init method of the target (part of construction, run once the keywords are in place) overrides a parameter
        # or moves a source
        case["boot"] = list(draw(st.one_of(
            st.tuples(st.just("override"), st.sampled_from([l[0] for l in ctor]), st.integers(0, 9)),
            st.tuples(st.just("src"), st.integers(0, 1), st.sampled_from(["v", "w"]), st.integers(-20, 60)))))
    return case


def strategy(tier):
    return _case()


def _plain(n, k):
    return {"x": k, "y": k, "z": k, "t": f"p{k}", "lst": [k], "d": {"p": k}}[n]


def _valid(n, v):
    if v is rw.ERR:
        return False          # the reference cannot be evaluated right now: like an invalid value, the source update raises
    if v is rw.SKIP:
        return True           # a skipped evaluation assigns nothing, so it cannot be invalid
    if n in ("x", "y", "z"):
        return isinstance(v, (int, float)) and -1000 <= v <= 1000
    return True


def execute(case):
    res = Result()
    boot = case.get("boot")
    booted = []

    def boot_fn(obj):
        booted.append(1)
        if boot[0] == "override":
            setattr(obj, boot[1], _plain(boot[1], boot[2]))
        else:
            setattr(srcs[boot[1]], boot[2], boot[3])

    S, T = rw.make_classes(boot_fn if boot else None)
    si_ = case.get("src_init")
    srcs = [S(v=si_[i][0], w=si_[i][1]) for i in (0, 1)] if si_ else [S(), S()]
    if si_:
        res.label("sources_start_from_other_values")
    mv = {(i, p): getattr(srcs[i], p) for i in (0, 1) for p in ("v", "w", "s")}
    links = {}      # name -> (closure, deps)
    plain = {}      # name -> value it must keep (overridden names)
    stale = set()   # names not judged until one of their sources is updated again
    marks = set()
    kw = {}
    for n, spec in case["ctor"]:
        ref, fn, deps = rw.build_ref(spec, srcs)
        kw[n] = ref
        links[n] = (fn, deps)
        if spec[0] in ("nlist", "ndict"):
            marks.add("nested_reference")
    if boot and boot[0] == "src" and any(not _valid(n, fn({**{(i, p): getattr(srcs[i], p) for i in (0, 1) for p in ("v", "w", "s")},
                                                            (boot[1], boot[2]): boot[3]})) for n, (fn, _d) in links.items()):
        boot = None           # (would make a linked value invalid during construction: not this clause's subject)
        S, T = rw.make_classes(None)
        srcs = [S(v=si_[i][0], w=si_[i][1]) for i in (0, 1)] if si_ else [S(), S()]
        links, kw = {}, {}
        for n, spec in case["ctor"]:
            ref, fn, deps = rw.build_ref(spec, srcs)
            kw[n] = ref
            links[n] = (fn, deps)
    tgt = T(**kw)
    if boot:
        if not booted:
            res.fail("C08.harness", "the on_init method did not run")
        marks.add("on_init_method_" + boot[0])
        if boot[0] == "override":
            links.pop(boot[1], None)
            plain[boot[1]] = _plain(boot[1], boot[2])
        else:
            mv[(boot[1], boot[2])] = boot[3]
            for n, (fn, deps) in links.items():
                if fn(mv) is rw.SKIP:
                    stale.add(n)
    hist = {"relinked": False, "after_relink_src_updates": 0}

    def census(tag):
        for i in (0, 1):
            live = any(any(si == i for si, _p in deps) for (_f, deps) in links.values())
            n = len(rw.sync_watchers_on(srcs[i], tgt))
            if not live and n:
                res.fail("C08.leftover_watcher", f"after {tag}: no live link of the target depends on source {i}, yet the target "
                                                 f"keeps {n} watcher(s) on it")
            if live and not n:
                res.fail("C08.link_watcher_missing", f"after {tag}: a live link depends on source {i} but the target watches "
                                                     f"nothing there")

    def compare(tag):
        for n, (fn, deps) in links.items():
            if n in stale:
                continue
            want = fn(mv)
            if want is rw.SKIP or not _valid(n, want):
                stale.add(n)          # nothing to mirror right now (skipped / invalid): judged again after the next update
                continue
            got = getattr(tgt, n)
            if got != want:
                res.fail("C08.link_not_mirrored", f"after {tag}: {n} is {got!r}, its reference resolves to {want!r} "
                                                  f"(link {[l for l in case['ctor'] if l[0] == n] or 'made later'})")
        for n, v in plain.items():
            got = getattr(tgt, n)
            if got != v:
                res.fail("C08.override_not_kept", f"after {tag}: {n} was overridden with {v!r} but reads {got!r}")
        census(tag)

    def src_set(i, pn, val, tag):
        invalid_for = [n for n, (fn, deps) in links.items() if (i, pn) in deps and not _valid(n, fn({**mv, (i, pn): val}))]
        unchanged = mv[(i, pn)] == val
        try:
            setattr(srcs[i], pn, val)
        except (ValueError, ZeroDivisionError):
            if not invalid_for:
                res.fail("C08.source_update_raised", f"{tag}: updating the source raised although every linked value stays valid")
        mv[(i, pn)] = getattr(srcs[i], pn)
        for n, (fn, deps) in links.items():
            if (i, pn) in deps:
                if n in invalid_for or invalid_for:
                    stale.add(n)       # one rejected target aborts the whole propagation: judge again after the next update
                elif fn(mv) is rw.SKIP:
                    stale.add(n)       # the reference produced no value: the target keeps what it has
                elif not unchanged:
                    stale.discard(n)   # (an assignment of the value the source already has announces nothing)
        if hist["relinked"]:
            hist["after_relink_src_updates"] += 1

    iconst = set()        # names made constant on the instance: assignments by the user are refused from then on

    def run(op, depth=0):
        k = op[0]
        tag = f"{op!r}"
        if k in ("relink", "override") and op[1] in iconst or k == "updctx" and (op[1] in iconst or (len(op) > 4 and op[4] in iconst)):
            return None       # (that such assignments raise TypeError is C14's subject)
        res.label("op:" + k)
        if k == "src":
            src_set(op[1], op[2], op[3], tag)
        elif k == "batch":
            i = op[1]
            bad = [n for n, (fn, deps) in links.items()
                   if not _valid(n, fn({**mv, (i, "v"): op[2], (i, "w"): op[3]})) and any(si == i for si, _ in deps)]
            old_vals = {"v": mv[(i, "v")], "w": mv[(i, "w")]}
            try:
                srcs[i].param.update(v=op[2], w=op[3])
            except (ValueError, ZeroDivisionError):
                pass
            mv[(i, "v")], mv[(i, "w")] = srcs[i].v, srcs[i].w
            changed = {p for p, v in (("v", op[2]), ("w", op[3])) if old_vals[p] != v}
            for n, (fn, deps) in links.items():
                if any(si == i and p in ("v", "w") for si, p in deps):
                    if bad or fn(mv) is rw.SKIP:
                        stale.add(n)
                    elif any(si == i and p in changed for si, p in deps):
                        stale.discard(n)
        elif k == "relink":
            n, spec = op[1], op[2]
            ref, fn, deps = rw.build_ref(spec, srcs)
            want = fn(mv)
            try:
                setattr(tgt, n, ref)
            except (ValueError, ZeroDivisionError):
                if _valid(n, want):
                    res.fail("C08.relink_raised", f"{tag}: assigning a reference with the valid current value {want!r} raised")
                res.dontcare += 1
                return "abort"      # what a rejected reference leaves behind is C02's subject
            links[n] = (fn, deps)
            plain.pop(n, None)
            stale.discard(n)
            if want is rw.SKIP:
                marks.add("link_made_while_reference_skips")
            hist["relinked"] = True
            marks.add("link_made_later")
            if spec[0] in ("nlist", "ndict"):
                marks.add("nested_reference")
        elif k == "inst_const":
            n = op[1]
            tgt.param[n].constant = True
            iconst.add(n)
            if n in links:
                marks.add("linked_parameter_made_constant_on_the_instance")
        elif k == "trigger":
            # param.trigger announces the current values again: it overrides nothing, links stay as they are
            if any(n in stale for n in op[1]):
                return None          # the held value may be invalid-for-target history: keep to judged names
            if op[2]:
                from param.parameterized import batch_call_watchers
                with batch_call_watchers(tgt):
                    tgt.param.trigger(*op[1])
            else:
                tgt.param.trigger(*op[1])
            if any(n in links for n in op[1]):
                marks.add("trigger_on_linked_parameter")
        elif k == "trigger_cb":
            n, m = op[1], op[2]
            if n in stale or m in iconst:
                return None
            v = _plain(m, op[3])
            w = tgt.param.watch(lambda ev: setattr(tgt, m, v), n)
            try:
                tgt.param.trigger(n)
            finally:
                tgt.param.unwatch(w)
            if m in links:
                hist["relinked"] = True
                marks.add("override_of_linked_by_callback_during_trigger")
            links.pop(m, None)
            stale.discard(m)
            plain[m] = v
        elif k == "override":
            n = op[1]
            v = _plain(n, op[2])
            setattr(tgt, n, v)
            if n in links:
                hist["relinked"] = True
                marks.add("override_of_linked")
            links.pop(n, None)
            stale.discard(n)
            plain[n] = v
        elif k == "updctx":
            pairs = [(op[1], _plain(op[1], op[2]))]
            form = "kw"
            if len(op) > 4:
                pairs.append((op[4], _plain(op[4], op[5])))
                form = op[6]
                marks.add("update_context_form:" + form)
            saved = {n: (links.get(n), plain.get(n, None), getattr(tgt, n)) for n, _v in pairs}
            if form == "kw":
                cm = tgt.param.update(**dict(pairs))
            elif form == "mapping":
                cm = tgt.param.update(dict(pairs))
            elif form == "pairs":
                cm = tgt.param.update(list(pairs))              # any iterable of (name, value) pairs, like dict.update
            elif form == "iterator":
                cm = tgt.param.update(iter(list(pairs)))
            elif form == "mixed":
                cm = tgt.param.update(dict(pairs[:1]), **dict(pairs[1:]))
            else:
                cm = tgt.param.update(dict(pairs[1:]), **dict(pairs[:1]))
            cm.__enter__()
            hold_plain = {}
            for n, v in pairs:
                if getattr(tgt, n) != v:
                    res.fail("C08.update_context_value", f"{tag}: inside the context {n} is {getattr(tgt, n)!r}")
                links.pop(n, None)
                hold_plain[n] = plain.pop(n, None)
                plain[n] = v
            for ch in op[3]:
                run(ch, depth + 1)
                compare(f"{ch!r} inside {tag}")
            for n, _v in pairs:
                plain.pop(n, None)
            try:
                cm.__exit__(None, None, None)
            except (ValueError, ZeroDivisionError):
                # a link cannot be restored because its reference currently resolves to an invalid value: no claim
                if any(wl is not None and not _valid(n, wl[0](mv)) for n, (wl, _p, _b) in saved.items()):
                    res.dontcare += 1
                    return "abort"
                raise
            for n, (was_link, _was_plain, before) in saved.items():
                if hold_plain[n] is not None:
                    plain[n] = hold_plain[n]
                    if getattr(tgt, n) != before:
                        res.fail("C08.update_context_restore", f"{tag}: {n} was {before!r} before the context and is "
                                                               f"{getattr(tgt, n)!r} after it")
                if was_link is not None:
                    links[n] = was_link     # the link is back: the name mirrors its reference again (checked by compare)
                    stale.discard(n)
                    if was_link[0](mv) is rw.SKIP and getattr(tgt, n) != before:
                        # the restored reference produces no value right now: the previous value must be back all the same
                        res.fail("C08.update_context_restore", f"{tag}: {n} was {before!r} before the context (its reference currently "
                                                               f"yields nothing) and is {getattr(tgt, n)!r} after it")
            marks.add("update_context")
        return None

    compare("construction")
    for op in case["ops"]:
        if run(op) == "abort" or res.violations:
            break
        compare(f"{op!r}")
        if res.violations:
            break
    if len([n for n in links]) + len(plain) >= 2 and hist["relinked"] and hist["after_relink_src_updates"] >= 1:
        marks.add("relink_then_source_updates")
    if case.get("two_targets") and not res.violations:
        _two_targets(res, case["two_targets"])
    for m in marks:
        res.label(m)
    res.nontrivial = bool(marks & {"relink_then_source_updates", "link_made_later", "nested_reference"})
    return res


def _two_targets(res, c):
    """first.x and second.x follow src.v, second.y follows src.w.  A watcher of first.x reacts to large values by overriding
    second.y (plain value) or relinking it (other.w).  Whatever the source announces, and however (single assignments, update,
    an explicit batch): each target mirrors its live links after the operation, and the override stays."""
    import param
    from param.parameterized import batch_call_watchers
    S, T = rw.make_classes()
    src, other = S(), S()
    if c["first_made_first"]:
        first = T(x=src.param.v)
        second = T(x=src.param.v, y=src.param.w)
    else:
        second = T(x=src.param.v, y=src.param.w)
        first = T(x=src.param.v)
    state = {"y": "linked"}

    def guard(event):
        if event.new >= 100 and state["y"] == "linked":
            if c["action"] == "override":
                second.y = -1
                state["y"] = "plain"
            else:
                second.y = other.param.w
                state["y"] = "relinked"
    first.param.watch(guard, "x")
    res.label("two_targets:" + c["action"])
    for v, w, how in c["batches"]:
        if how == "update":
            src.param.update(v=v, w=w)
        elif how == "batch":
            with batch_call_watchers(src):
                src.v = v
                src.w = w
        else:
            src.v = v
            src.w = w
        tag = f"two targets {c['action']}: after the source announced v={v}, w={w} ({how})"
        if first.x != v or second.x != v:
            res.fail("C08.link_not_mirrored", f"{tag}: first.x={first.x!r}, second.x={second.x!r}")
        want_y = {"linked": w, "plain": -1, "relinked": other.w}[state["y"]]
        if second.y != want_y:
            res.fail("C08.link_not_mirrored" if state["y"] != "plain" else "C08.override_not_kept",
                     f"{tag}: second.y={second.y!r}, expected {want_y!r} ({state['y']})")
        if res.violations:
            return
    if state["y"] == "relinked":
        other.w = 77
        if second.y != 77:
            res.fail("C08.link_not_mirrored", f"two targets relink: second.y={second.y!r} after its new source moved to 77")
