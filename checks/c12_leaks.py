"""C12 - instances and classes do not leak values or metadata into each other.

Ownership model for values (who owns which object) + frame conditions for Parameter metadata
(an instance-level change is visible on that instance only; a subclass-level change never reaches
the parent class).
"""
import collections
import copy

from hypothesis import strategies as st

import param
from vlib.core import Result

ID = "C12"
LEVEL = "exploration"
RULE = ("Hypothesis-generated histories (<=15 ops) over A<-B<-C with parameters x Number, l List (instantiate), lr List(allow_refs; a constructor reference may be skipped), d Dict(None, "
        "instantiate), sh shared mutable default, c/cn constants, pi per_instance=False, s Selector, se empty Selector "
        "(check_on_set=False): instance creation (with keywords), instance/class/subclass sets (incl. re-assigning the "
        "identical default object), in-place mutation of values, instance- and class-level Parameter attribute edits "
        "(bounds, doc, objects append/assign; a subclass that has its own Parameter object must not reach its ancestors), Composite sets at every level, temporary update() contexts, bare reads creating per-instance copies; oracle = ownership model for values "
        "+ frame conditions for metadata after every op. Non-trivial = an instance is created between two class-level "
        "changes, or an in-place mutation / metadata edit follows the creation of a second instance; distinct = case hash. Round-4 additions: Selectors whose objects are held in a deque / a UserDict, the instantiate flag of a class Parameter raised after instances exist (later instances get private copies), shared_parameters() blocks left normally or through an exception. Round 5: a class assigned the very value it inherits.")
ASSUMPTIONS = [
    "whether an instance follows later class-level *metadata* changes is not claimed (depends on the lazy copy)",
    "per_instance=False parameters are exempt from the metadata frame conditions",
    "read-only inspection of obj._param__private.params decides which Parameter object an instance currently sees",
]
SIZES = {"quick": 1200, "thorough": 8000}

VP = ["x", "l", "d", "sh", "c", "cn", "pi", "s", "se", "lr", "u", "v", "sq", "su"]
MUT = ["l", "sh", "c", "d", "lr"]
ATTRS = ["bounds_x", "doc_x", "objs_append_s", "objs_assign_s", "objs_append_se", "bounds_pi", "doc_l", "step_x",
         # objects held in a deque / named objects held in a UserDict (mutable containers that are not list / dict)
         "objs_append_sq", "objs_setitem_su",
         # the instantiate flag of the class Parameter of the shared default is raised after instances may already exist
         "instantiate_sh"]

_i = st.integers(0, 7)
_k = st.integers(0, 9)
_c = st.sampled_from([0, 1, 1, 2, 2])        # A, B(A), C(B)


def _ops():
    return st.one_of(
        st.tuples(st.just("new"), _c, st.sampled_from(["", "", "x", "l", "c", "s", "d", "lr_skip", "lr", "se"]), _k),
        st.tuples(st.just("new"), _c, st.just(""), _k),
        st.tuples(st.just("iupdctx"), _i, st.integers(0, len(VP) - 1), _k),
        st.tuples(st.just("iset"), _i, st.integers(0, len(VP) - 1), _k, st.booleans(), st.sampled_from(["attr", "attr", "update"])),
        st.tuples(st.just("iset"), _i, st.integers(0, len(VP) - 1), _k, st.just(False), st.sampled_from(["attr", "update"])),
        # a callback run by param.trigger assigns another parameter the object that is the class default right now
        st.tuples(st.just("itrig"), _i, st.sampled_from([0, 3, 7, 10, 11])),
        st.tuples(st.just("cset"), _c, st.integers(0, len(VP) - 1), _k),
        st.tuples(st.just("cset"), _c, st.integers(0, len(VP) - 1), _k),
        # the class is assigned the very value it shows (inherits) right now: from then on that value is its own
        st.tuples(st.just("cset"), _c, st.integers(0, len(VP) - 1), _k, st.just(True)),
        st.tuples(st.just("imut"), _i, st.integers(0, len(MUT) - 1), _k),
        st.tuples(st.just("cmut"), _c, st.integers(0, len(MUT) - 1), _k),
        st.tuples(st.just("iattr"), _i, st.integers(0, len(ATTRS) - 1), _k),
        st.tuples(st.just("cattr"), _c, st.integers(0, len(ATTRS) - 1), _k),
        st.tuples(st.just("read"), _i, st.integers(0, len(VP) - 1)),
        st.tuples(st.just("icomp"), _i, _k),
        st.tuples(st.just("ccomp"), _c, _k),
        # instances created (and dropped) inside a shared_parameters() block, which may be left through an exception
        st.tuples(st.just("shared_block"), _c, st.booleans()),
        st.tuples(st.just("cattr"), _c, st.sampled_from([8, 9, 10]), _k),
        st.tuples(st.just("iattr"), _i, st.sampled_from([8, 9]), _k),
    )


@st.composite
def _case(draw):
    ops = [list(o) for o in draw(st.lists(_ops(), min_size=2, max_size=13))]
    if draw(st.integers(0, 3)) == 0:
        # order-dependent motif: an instance takes the class default object as its own value, a temporary update()
        # runs over it, then the class default is reassigned (ops may be interleaved with the others)
        n = draw(st.sampled_from([0, 3, 7]))        # x, sh, s
        c = draw(_c)
        motif = [["new", c, "", 0], ["iset", 7, n, 0, True], ["iupdctx", 7, n, draw(_k)], ["cset", draw(st.integers(0, c)), n, draw(_k)]]
        pos = sorted(draw(st.lists(st.integers(0, len(ops)), min_size=4, max_size=4)))
        for off, (q, m) in enumerate(zip(pos, motif)):
            ops.insert(q + off, m)
    if draw(st.integers(0, 3)) == 0:
        # order-dependent motif: the leaf class is in use (its namespace cache is warm) while the class in the middle has
        # never been touched, then a class-level assignment is made on that middle class, then another leaf is created
        n = draw(st.sampled_from([1, 3, 0, 9]))     # l, sh, x, lr
        ops[0:0] = [["new", 2, "", 0], ["cset", 1, n, draw(_k)], ["new", 2, "", 0]]
    if draw(st.integers(0, 4)) == 0:
        # order-dependent motif: instances exist, then the instantiate flag of the shared default is raised on a class
        # Parameter, then more instances are made and one of them mutates its value in place
        c = draw(_c)
        motif = [["new", c, "", 0], ["cattr", draw(st.integers(0, c)), 10, 0], ["new", c, "", 0], ["new", draw(_c), "", 0],
                 ["imut", draw(_i), 1, draw(_k)]]
        pos = sorted(draw(st.lists(st.integers(0, len(ops)), min_size=5, max_size=5)))
        for off, (q, m) in enumerate(zip(pos, motif)):
            ops.insert(q + off, m)
    return {"b_redeclares_x": draw(st.booleans()), "ops": ops,
            # the instances are container-like objects that are empty, hence falsy
            "falsy": draw(st.sampled_from([False, False, True]))}


def strategy(tier):
    return _case()


class _Boom(Exception):
    pass


def _static(K, n):
    for k in K.__mro__:
        v = vars(k).get(n)
        if isinstance(v, param.Parameter):
            return v
    raise KeyError(n)


def _meta(p):
    out = {"doc": p.doc, "constant": p.constant, "label": p.label, "allow_None": p.allow_None}
    for a in ("bounds", "softbounds", "step", "inclusive_bounds", "item_type", "check_on_set"):
        if hasattr(p, a):
            out[a] = getattr(p, a)
    if isinstance(p, param.Selector):
        out["objects"] = list(p._objects)
        out["names"] = dict(p.names)
    return out


def _region_ctor_autoadd(case, v):
    """KF-C12-1: a constructor keyword for the check_on_set=False Selector `se` whose value is not among the objects is
    appended to the objects of the *class* Parameter (no instance-level Parameter exists during construction)."""
    import re
    m = re.match(r"after op(\d+):", v.detail)
    if v.clause != "C12.metadata_leak" or not m:
        return False
    op = case["ops"][int(m.group(1))]
    return op[0] == "new" and op[2] == "se" and "'se')" in v.detail and "'objects'" in v.detail


REGIONS = {"ctor_keyword_autoadds_to_class_objects": _region_ctor_autoadd}


def execute(case):
    res = Result()
    ns = {
        "x": param.Number(default=1, bounds=(0, 10)),
        "l": param.List(default=[1, 2]),
        "d": param.Dict(default=None),
        "sh": param.Parameter(default=[0]),
        "c": param.Parameter(default=[5], constant=True),
        "cn": param.Parameter(default=None, constant=True),
        "pi": param.Number(default=2, bounds=(0, 10), per_instance=False),
        "s": param.Selector(objects=[1, 2, 3]),
        "se": param.Selector(),
        "sq": param.Selector(default="a", objects=collections.deque(["a", "b"], maxlen=40)),
        "su": param.Selector(default=1, objects=collections.UserDict({"m": 1, "f": 2})),
        "lr": param.List(default=[7], allow_refs=True),
        "u": param.Number(default=11), "v": param.Number(default=12),
        # assigning the composite assigns its two components, on the object (instance, class or subclass) it is assigned on
        "uv": param.Composite(attribs=["u", "v"]),
    }
    if case.get("falsy"):
        ns["__len__"] = lambda self: 0
        res.label("falsy_instances")
    A = type("A", (param.Parameterized,), ns)
    B = type("B", (A,), {"x": param.Number(default=3)} if case["b_redeclares_x"] else {})
    C = type("C", (B,), {})
    classes = [A, B, C]
    src = type("Src", (param.Parameterized,), {"v": param.Number(default=0)})()

    def _skip(v):
        raise param.Skip
    # ---- value model --------------------------------------------------------
    cown = {(A, n): getattr(A, n) for n in VP}        # class-owned default objects
    if case["b_redeclares_x"]:
        cown[(B, "x")] = 3
    insts = []      # dict(obj, cls, own={p: obj}, mirror={p: content copy for instantiated values})
    cmirror = {(A, "l"): [1, 2], (A, "lr"): [7]}

    def cdefault(K, n):
        for k in K.__mro__:
            if (k, n) in cown:
                return cown[(k, n)]
        raise KeyError(n)

    def cmir(K, n):
        for k in K.__mro__:
            if (k, n) in cmirror:
                return cmirror[(k, n)]
        return None

    def expect(rec, n):
        if n in rec["own"]:
            return rec["own"][n]
        return cdefault(rec["cls"], n)

    def vis(rec, n):
        p = rec["obj"]._param__private.params.get(n)
        return p if p is not None else _static(rec["cls"], n)

    def snapshot():
        snap = {}
        for K in classes:
            for n in VP:
                snap[(K.__name__, n)] = _meta(_static(K, n))
        for idx, rec in enumerate(insts):
            for n in VP:
                snap[(idx, n)] = _meta(vis(rec, n))
        return snap

    def check_values(tag):
        for K in classes:
            for n in VP:
                got, want = getattr(K, n), cdefault(K, n)
                if n in ("x", "pi", "s", "se", "u", "v", "sq", "su"):
                    ok = got == want
                else:
                    ok = got is want
                if not ok:
                    res.fail("C12.class_value", f"after {tag}: {K.__name__}.{n} is {got!r}, model says {want!r}")
            for ln in ("l", "lr"):
                m = cmir(K, ln)
                if m is not None and getattr(K, ln) != m:
                    res.fail("C12.class_default_mutated", f"after {tag}: {K.__name__}.{ln} content {getattr(K, ln)!r} "
                                                          f"differs from the model {m!r}")
        for idx, rec in enumerate(insts):
            o = rec["obj"]
            for n in VP:
                got, want = getattr(o, n), expect(rec, n)
                if n in rec.get("loose", ()) and (got is cdefault(rec["cls"], n) or (n in ("x", "pi", "s", "se", "u", "v", "sq", "su") and
                                                                                      got == cdefault(rec["cls"], n))):
                    continue
                if n in ("x", "pi", "s", "se", "u", "v", "sq", "su"):
                    if got != want:
                        res.fail("C12.instance_value", f"after {tag}: inst{idx}:{rec['cls'].__name__}.{n} is {got!r}, "
                                                       f"ownership model says {want!r}")
                elif n in rec["mirror"]:
                    # an instantiated (deep-copied) value: private object with tracked content
                    if got != rec["mirror"][n]:
                        res.fail("C12.instantiated_content", f"after {tag}: inst{idx}.{n} content {got!r}, model "
                                                             f"{rec['mirror'][n]!r}")
                    if got is not None:
                        for K in classes:
                            if got is getattr(K, n):
                                res.fail("C12.instantiated_shared", f"after {tag}: inst{idx}.{n} is the very object "
                                                                    f"held as {K.__name__} default")
                        for j, other in enumerate(insts):
                            if j != idx and got is getattr(other["obj"], n):
                                res.fail("C12.instantiated_shared", f"after {tag}: inst{idx}.{n} is inst{j}.{n}")
                else:
                    if got is not want:
                        res.fail("C12.instance_value", f"after {tag}: inst{idx}:{rec['cls'].__name__}.{n} is {got!r} "
                                                       f"(id {id(got)}), ownership model says {want!r} (id {id(want)})")

    def frame(tag, before, allowed):
        """`allowed(key)` says whether the metadata under key may have changed."""
        after = snapshot()
        for key, m in before.items():
            if key not in after or allowed(key):
                continue
            if after[key] != m:
                diff = {a: (m[a], after[key].get(a)) for a in m if after[key].get(a) != m[a]}
                res.fail("C12.metadata_leak", f"after {tag}: Parameter metadata seen by {key} changed: {diff}")

    def newval(n, k):
        if n in ("x", "pi", "u", "v"):
            return k
        if n in ("l", "sh", "c", "cn", "lr"):
            return [k, k]
        if n == "d":
            return {"k": k}
        if n == "s":
            return [1, 2, 3][k % 3]
        if n == "sq":
            return ["a", "b"][k % 2]
        if n == "su":
            return [1, 2][k % 2]
        return f"v{k}"          # se: any value (check_on_set=False appends it)

    n_cls_changes = 0
    created_after_cls_change = False
    nontrivial = False

    for step, op in enumerate(case["ops"]):
        tag = f"op{step}:{op!r}"
        kind = op[0]
        res.label(f"op:{kind}")
        before = snapshot()
        if kind == "new":
            K = classes[op[1]]
            kw = {}
            if op[2] == "lr_skip":
                # a reference that produces no value at construction (its function raises Skip): the keyword is never
                # actually assigned, the instance must still get its private copy of the default
                o = K(lr=param.bind(_skip, src.param.v))
                res.label("ctor_reference_skipped")
            else:
                if op[2]:
                    kw[op[2]] = newval(op[2], op[3])
                o = K(**kw)
            rec = {"obj": o, "cls": K, "own": {}, "mirror": {}}
            for n in ("l", "d", "lr"):
                if n in kw:
                    rec["own"][n] = kw[n]
                else:
                    dflt = cdefault(K, n)
                    rec["mirror"][n] = copy.deepcopy(cmir(K, n) if n in ("l", "lr") and cmir(K, n) is not None else dflt)
            for n in ("c", "cn"):
                rec["own"][n] = kw.get(n, cdefault(K, n))
            if _static(K, "sh").instantiate:
                # the flag was raised on the class Parameter this class uses: instances made from now on get a copy of their own
                rec["mirror"]["sh"] = copy.deepcopy(cdefault(K, "sh"))
                res.label("instance_created_after_instantiate_flag_raised")
            for n in kw:
                if n not in ("l", "d", "lr", "c", "cn"):
                    rec["own"][n] = kw[n]
            insts.append(rec)
            if n_cls_changes:
                created_after_cls_change = True
            frame(tag, before, lambda key: False)
        elif kind == "iset":
            if not insts:
                continue
            idx = op[1] % len(insts)
            rec = insts[idx]
            n = VP[op[2]]
            if n in ("c", "cn"):
                continue      # constants: C14
            v = getattr(rec["obj"], n) if op[4] else newval(n, op[3])
            try:
                if len(op) > 5 and op[5] == "update":
                    rec["obj"].param.update(**{n: v})
                    res.label("iset_via_param_update")
                else:
                    setattr(rec["obj"], n, v)
            except ValueError:
                res.dontcare += 1      # rejected by (possibly instance-level) constraints: C01's business
                continue
            rec["own"][n] = v
            rec["mirror"].pop(n, None)
            rec.get("loose", set()).discard(n)
            if op[4]:
                res.label("iset_identical_default")
            if n == "pi":
                frame(tag, before, lambda key: key[1] == "pi")
            else:
                frame(tag, before, lambda key: key == (idx, n))
        elif kind == "itrig":
            if not insts:
                continue
            idx = op[1] % len(insts)
            rec = insts[idx]
            n = VP[op[2]]
            o = rec["obj"]
            dflt = cdefault(rec["cls"], n)
            h = o.param.watch(lambda *e: setattr(o, n, dflt), "pi", onlychanged=False)
            try:
                o.param.trigger("pi")
            finally:
                o.param.unwatch(h)
            rec["own"][n] = dflt            # the instance did assign it, although to the object the class holds
            rec["mirror"].pop(n, None)
            rec["own"]["pi"] = getattr(o, "pi")   # (trigger re-assigns the current value of what it announces)
            rec.setdefault("loose", set()).add("pi")
            rec.get("loose", set()).discard(n)
            res.label("assignment_by_callback_during_trigger")
            frame(tag, before, lambda key: key[1] in ("pi", n) and (key[0] == idx or key[1] == "pi"))
        elif kind == "cset":
            K = classes[op[1]]
            n = VP[op[2]]
            v = newval(n, op[3])
            if len(op) > 4 and op[4]:
                v = getattr(K, n)
                res.label("class_assigned_the_value_it_inherits")
            try:
                setattr(K, n, v)
            except ValueError:
                res.dontcare += 1
                continue
            # an ancestor that holds a different Parameter object for n (after the assignment K has its own) sees nothing of it
            kpar = _static(K, n)
            shielded = {P.__name__ for P in K.__mro__[1:] if P in classes and _static(P, n) is not kpar}
            frame(tag, before, lambda key: not (key[1] == n and key[0] in shielded))
            cown[(K, n)] = v
            if n in ("l", "lr"):
                cmirror[(K, n)] = list(v)
            n_cls_changes += 1
            if created_after_cls_change:
                nontrivial = True
                res.label("instance_between_class_changes")
            # class-level operations: the statement claims isolation for instance-level changes only;
            # no metadata frame condition is asserted here (values are checked by the ownership model)
        elif kind == "iupdctx":
            # a temporary update: on exit the instance is back to exactly what it had (own value or following the class)
            if not insts:
                continue
            idx = op[1] % len(insts)
            rec = insts[idx]
            n = VP[op[2]]
            if n in ("c", "cn", "se"):
                continue
            try:
                with rec["obj"].param.update(**{n: newval(n, op[3])}):
                    pass
            except ValueError:
                res.dontcare += 1
                continue
            if n in rec["own"] and rec["own"][n] is cdefault(rec["cls"], n):
                res.label("temporary_update_over_own_value_identical_to_default")
            if n not in rec["own"] and n not in rec["mirror"]:
                # restoring re-assigns the value it had; whether the instance owns it from now on or goes on following
                # the class is not claimed either way
                rec["own"][n] = cdefault(rec["cls"], n)
                rec.setdefault("loose", set()).add(n)
            if n == "pi":
                frame(tag, before, lambda key: key[1] == "pi")
            else:
                frame(tag, before, lambda key: key == (idx, n))
        elif kind == "icomp":
            if not insts:
                continue
            idx = op[1] % len(insts)
            rec = insts[idx]
            rec["obj"].uv = [op[2], op[2] + 20]
            rec["own"]["u"], rec["own"]["v"] = op[2], op[2] + 20
            rec.get("loose", set()).difference_update({"u", "v"})
            frame(tag, before, lambda key: key[0] == idx and key[1] in ("u", "v", "uv"))
        elif kind == "ccomp":
            K = classes[op[1]]
            K.uv = [op[2], op[2] + 30]
            cown[(K, "u")], cown[(K, "v")] = op[2], op[2] + 30
            n_cls_changes += 1
            res.label("class_level_composite_set")
        elif kind == "shared_block":
            K = classes[op[1]]
            try:
                with param.shared_parameters():
                    K()
                    K()
                    if op[2]:
                        raise _Boom("inside shared_parameters")
            except _Boom:
                res.label("shared_parameters_block_left_through_an_exception")
            frame(tag, before, lambda key: False)
        elif kind == "imut":
            if not insts:
                continue
            idx = op[1] % len(insts)
            rec = insts[idx]
            n = MUT[op[2]]
            cur = getattr(rec["obj"], n)
            if isinstance(cur, list):
                cur.append(op[3])
                if n in rec["mirror"]:
                    rec["mirror"][n].append(op[3])
                elif n == "l" and n not in rec["own"]:
                    pass
                # class mirrors: an instance that follows the class default mutates the shared object
                for (kk, nn), m_ in list(cmirror.items()):
                    if nn == n and cown.get((kk, nn)) is cur:
                        m_.append(op[3])         # every class that holds this very object (it may be shared after `K.l = K.l`)
            elif isinstance(cur, dict):
                cur[f"m{op[3]}"] = op[3]
                if n in rec["mirror"] and rec["mirror"][n] is not None:
                    rec["mirror"][n][f"m{op[3]}"] = op[3]
            else:
                continue
            if len(insts) >= 2:
                nontrivial = True
                res.label("mutation_after_second_instance")
            frame(tag, before, lambda key: False)
        elif kind == "cmut":
            K = classes[op[1]]
            n = MUT[op[2]]
            cur = getattr(K, n)
            if isinstance(cur, list):
                cur.append(op[3])
                for (kk, nn), m_ in list(cmirror.items()):
                    if nn == n and cown.get((kk, nn)) is cur:
                        m_.append(op[3])
            elif isinstance(cur, dict):
                cur[f"c{op[3]}"] = op[3]
            else:
                continue
            frame(tag, before, lambda key: False)
        elif kind in ("iattr", "cattr"):
            what = ATTRS[op[2]]
            k = op[3]
            pn = what.rsplit("_", 1)[1]
            if kind == "iattr":
                if not insts:
                    continue
                idx = op[1] % len(insts)
                holder = insts[idx]["obj"]
            else:
                holder = classes[op[1]]
            P = holder.param[pn]
            try:
                if what.startswith("bounds"):
                    P.bounds = (0, 10 + k)
                elif what.startswith("doc"):
                    P.doc = f"doc{k}"
                elif what.startswith("step"):
                    P.step = k + 1
                elif what == "objs_append_sq":
                    P.objects.append(f"q{k}")
                elif what == "objs_setitem_su":
                    P.objects[f"n{k}"] = 300 + k
                elif what == "instantiate_sh":
                    P.instantiate = True
                elif what.startswith("objs_append"):
                    P.objects.append(100 + k)
                elif what.startswith("objs_assign"):
                    P.objects = [1, 2, 3, 200 + k]
            except ValueError:
                res.dontcare += 1
                continue
            if kind == "iattr":
                if len(insts) >= 2:
                    nontrivial = True
                    res.label("metadata_edit_after_second_instance")
                if pn == "pi":
                    frame(tag, before, lambda key: key[1] == "pi")
                else:
                    frame(tag, before, lambda key: key == (idx, pn))
            else:
                n_cls_changes += 1
                # class-level metadata edit: other parameters must be untouched; who else sees the edit (subclasses,
                # instances) is not claimed - except that an ancestor class which holds a *different* Parameter object
                # (the class edited here has its own, by declaration or by a class-level assignment) must not see it
                kpar = _static(holder, pn)
                shielded = {P.__name__ for P in holder.__mro__[1:] if P in classes and _static(P, pn) is not kpar}
                if shielded:
                    res.label("class_level_metadata_edit_with_own_parameter")
                frame(tag, before, lambda key: key[1] == pn and key[0] not in shielded)
        elif kind == "read":
            if not insts:
                continue
            idx = op[1] % len(insts)
            insts[idx]["obj"].param[VP[op[2]]]
            frame(tag, before, lambda key: False)
        check_values(tag)
    res.nontrivial = nontrivial
    return res
