"""C16 - serialized state always validates against the generated JSON schema.

Independent validator: jsonschema.Draft7Validator (Draft 7 because param emits numeric
exclusiveMinimum/exclusiveMaximum).
"""
import json
import math
import os
import sys

from hypothesis import strategies as st

from vlib import jsonworld as jw
from vlib import specs
from vlib.core import Result

_DEPS = os.path.join(os.environ.get("VERIF_HOME", os.path.dirname(os.path.dirname(os.path.abspath(__file__)))), ".deps")
if _DEPS not in sys.path:
    sys.path.append(_DEPS)
import jsonschema  # noqa: E402

ID = "C16"
LEVEL = "exploration"
RULE = ("Hypothesis-generated classes of 1-5 parameters drawn from Integer, Number, String, Boolean, Tuple, NumericTuple, "
        "XYCoordinates, Range, Date, CalendarDate, List, Dict, Selector, ListSelector, ClassSelector with every combination of "
        "bounds (none / one-sided / two-sided, incl. 0; fractional limits on an Integer), inclusivity, String regexes given as text or compiled with flags, length, item type, allowed objects and allow_None; valid "
        "states built by construction (often exactly on an inclusive bound or next to an exclusive one), at class and instance "
        "level, optionally with bounds / objects / length overridden on the instance's own Parameter objects (state valid under the override only), GUI-only hints (softbounds, step), dict-declared and later-extended object lists; oracle = (1) Draft7Validator.check_schema on the generated schema + a whitelist of Draft-7 keywords and type "
        "names, (2) the serialized valid state validates, (3) for Number/Integer each numeric probe (bounds, float neighbours, "
        "bound+-1) is accepted by the schema exactly when the spec predicate accepts it. Non-trivial = the configuration has a "
        "bound, an exclusive side, a length, an item type, an object list or allow_None=True; distinct = case hash. Round 5: a non-finite float as the state of an unbounded Number; the item type of a List re-declared on the instance.")
ASSUMPTIONS = [
    "independent validator: jsonschema (wheelhouse) Draft7Validator, `format` keywords not asserted",
    "Integer/Number states hold ints/floats (a bool is a valid Integer for param but not a JSON-schema integer: not generated)",
    "the constraint a schema must express is claimed for the numeric bounds of Number/Integer only (the property's converse clause)",
]
SIZES = {"quick": 1500, "thorough": 10000}

_TYPES = ["Integer", "Number", "String", "Boolean", "Tuple", "NumericTuple", "XYCoordinates", "Range", "Date", "CalendarDate",
          "List", "Dict", "Selector", "ListSelector", "ClassSelector"]
# the complete Draft-7 vocabulary: anything else is not a JSON-schema keyword
_KEYWORDS = {"$id", "$schema", "$ref", "$comment", "title", "description", "default", "readOnly", "writeOnly", "examples",
             "multipleOf", "maximum", "exclusiveMaximum", "minimum", "exclusiveMinimum", "maxLength", "minLength", "pattern",
             "additionalItems", "items", "maxItems", "minItems", "uniqueItems", "contains", "maxProperties", "minProperties",
             "required", "additionalProperties", "definitions", "properties", "patternProperties", "dependencies",
             "propertyNames", "const", "enum", "type", "format", "contentMediaType", "contentEncoding", "if", "then", "else",
             "allOf", "anyOf", "oneOf", "not"}
_JSON_TYPES = {"integer", "number", "string", "boolean", "array", "object", "null"}


@st.composite
def _case(draw):
    specs_ = draw(st.lists(jw.param_spec(types=_TYPES, for_schema=True), min_size=1, max_size=5))
    return {"params": [jw.enc_spec(s) for s in specs_], "level": draw(st.sampled_from(["instance", "instance", "class"])),
            # instance level only: constraints overridden on the instance's own Parameter objects, state valid under them only
            "override": draw(st.sampled_from([False, False, True])),
            # the state of the first unbounded Number (if any) is a non-finite float: still a number
            "nonfinite": draw(st.sampled_from([None, None, None, "inf", "-inf", "nan"]))}


def strategy(tier):
    return _case()


def _walk(schema, path, res):
    if not isinstance(schema, dict):
        res.fail("C16.schema_ill_formed", f"{path}: schema node is {schema!r}, not an object")
        return
    for k, v in schema.items():
        if k not in _KEYWORDS:
            res.fail("C16.schema_ill_formed", f"{path}: unknown keyword {k!r}")
        if k == "type":
            for t in (v if isinstance(v, list) else [v]):
                if t not in _JSON_TYPES:
                    res.fail("C16.schema_ill_formed", f"{path}: {t!r} is not a JSON-schema type")
        elif k == "anyOf":
            if not isinstance(v, list) or not v:
                res.fail("C16.schema_ill_formed", f"{path}: anyOf must be a non-empty array, got {v!r}")
            else:
                for i, s in enumerate(v):
                    _walk(s, f"{path}/anyOf/{i}", res)
        elif k in ("items", "additionalItems") and isinstance(v, dict):
            _walk(v, f"{path}/{k}", res)
        elif k == "properties":
            for n, s in v.items():
                _walk(s, f"{path}/properties/{n}", res)


def execute(case):
    res = Result()
    specs_ = [jw.dec_spec(e) for e in case["params"]]
    # bools are not generated as Integer/Number states (see ASSUMPTIONS)
    specs_ = [(t, c, (int(d) if isinstance(d, bool) and t in ("Integer", "Number") else d),
               (int(v) if isinstance(v, bool) and t in ("Integer", "Number") else v)) for t, c, d, v in specs_]
    if case.get("nonfinite"):
        for i_, (t, c, d, v) in enumerate(specs_):
            if t == "Number" and c.get("bounds") is None:
                specs_[i_] = (t, c, d, float(case["nonfinite"]))
                res.label("non_finite_number_state")
                break
        else:
            specs_.append(("Number", {}, 0.5, float(case["nonfinite"])))
            res.label("non_finite_number_state")
    K = jw.build_class(specs_)
    names = [f"p{i}" for i in range(len(specs_))]
    if case["level"] == "class":
        holder = K
    else:
        # a None state of a parameter that does not allow None is reached by *not* assigning (fresh object)
        holder = K(**{n: s[3] for n, s in zip(names, specs_) if s[3] is not None or s[1].get("allow_None")})
    if case["level"] == "instance" and case.get("override"):
        for n, (t, cfg, _d, _v) in zip(names, specs_):
            ip = holder.param[n]
            if t in ("Integer", "Number") and cfg.get("bounds") is not None and cfg["bounds"][1] is not None:
                hi = cfg["bounds"][1]
                ip.bounds = (cfg["bounds"][0], hi + 10)
                setattr(holder, n, (math.floor(hi) if t == "Integer" else hi) + 5)
                cfg["bounds"] = (cfg["bounds"][0], hi + 10)       # the constraint now in force for this object
                res.label("instance_level_bounds_override")
            elif t in ("Selector", "ListSelector") and cfg.get("objects"):
                new = "only-here" if isinstance(cfg["objects"][0], str) else 4242
                ip.objects = list(ip.objects) + [new]
                setattr(holder, n, new if t == "Selector" else [new])
                res.label("instance_level_objects_override")
            elif t == "List" and cfg.get("item_type") in (int, str) and (cfg.get("bounds") is None or ((cfg["bounds"][1] is None or cfg["bounds"][1] >= 2) and (cfg["bounds"][0] or 0) <= 2)):
                # the item type is re-declared on the instance; the state is valid under the new one only
                ip.item_type = (int, str)
                setattr(holder, n, [1, "a"])
                cfg["item_type"] = (int, str)
                res.label("instance_level_item_type_override")
            elif t == "List" and cfg.get("bounds") is not None and cfg["bounds"][1] is not None and cfg.get("item_type") in (None, int):
                ip.bounds = (0, cfg["bounds"][1] + 2)
                setattr(holder, n, [1] * (cfg["bounds"][1] + 2))
                res.label("instance_level_length_override")
    nontrivial = False
    for t, cfg, *_ in specs_:
        res.label("type:" + t)
        if cfg.get("bounds") is not None or cfg.get("allow_None") or "length" in cfg or "item_type" in cfg or "objects" in cfg:
            nontrivial = True
        if cfg.get("inclusive_bounds") not in (None, (True, True)):
            res.label("exclusive_side")
        if cfg.get("bounds") is not None and 0 in [b for b in cfg["bounds"] if b is not None]:
            res.label("bound_equal_zero")
    schema = holder.param.schema()
    full = {"type": "object", "properties": schema}
    # (1) well-formed
    try:
        json.dumps(schema)
    except Exception as e:  # noqa: BLE001
        res.fail("C16.schema_ill_formed", f"schema is not JSON-serialisable: {e!r}")
        return res
    try:
        jsonschema.Draft7Validator.check_schema(full)
    except jsonschema.exceptions.SchemaError as e:
        res.fail("C16.schema_ill_formed", f"metaschema check failed: {e.message} at {list(e.absolute_path)}; schema={schema!r}")
    for n, s in schema.items():
        _walk(s, n, res)
    if res.violations:
        return res
    validator = jsonschema.Draft7Validator(full)
    # (2) the valid state validates
    state = json.loads(holder.param.serialize_parameters())
    try:
        errs = list(validator.iter_errors(state))
    except Exception as e:  # noqa: BLE001
        # (the independent validator could not even evaluate the schema on this state, e.g. `multipleOf` against an infinity)
        res.fail("C16.valid_state_rejected", f"validating the serialized state {state!r} against {schema!r} raised {type(e).__name__}: {e}")
        errs = []
    for e in errs[:3]:
        n = list(e.absolute_path)[0] if e.absolute_path else "?"
        i = names.index(n) if n in names else None
        desc = f"{specs_[i][0]}({specs_[i][1]})" if i is not None else n
        res.fail("C16.valid_state_rejected", f"{desc}: serialized value {state.get(n)!r} rejected by its schema "
                                             f"{schema.get(n)!r}: {e.message}")
    # (3) numeric probes: schema verdict == spec verdict
    for n, (t, cfg, _d, _v) in zip(names, specs_):
        if t not in ("Integer", "Number") or cfg.get("bounds") is None:
            continue
        pv = jsonschema.Draft7Validator(schema[n])
        probes = []
        for b in cfg["bounds"]:
            if b is None:
                continue
            probes += [b, b - 1, b + 1]
            if t == "Number":
                probes += [math.nextafter(float(b), -math.inf), math.nextafter(float(b), math.inf), float(b)]
        scfg = {"bounds": cfg["bounds"], "inclusive": cfg.get("inclusive_bounds", (True, True)), "allow_None": cfg.get("allow_None")}
        for x in probes:
            if t == "Integer" and not isinstance(x, int):
                continue
            want = specs.verdict(t, scfg, x)
            got = pv.is_valid(json.loads(json.dumps(x)))
            res.label("numeric_probe")
            if want is False and got:
                res.fail("C16.out_of_bound_accepted", f"{t}({cfg}): {x!r} is outside the hard bounds but the schema "
                                                      f"{schema[n]!r} accepts it")
            elif want is True and not got:
                res.fail("C16.valid_state_rejected", f"{t}({cfg}): {x!r} is within the bounds but the schema {schema[n]!r} "
                                                     f"rejects it")
    res.nontrivial = nontrivial
    return res
