"""C09 - reactive expressions evaluate to the plain-Python result on current inputs.

A case is an expression DAG (as data) over rx roots, Parameters of a small Parameterized and a bind
function, plus a history of input updates interleaved with reads.  A mirror evaluator computes every
node in plain Python from the inputs' current values; each read of `.rx.value` must give an equal
value of the same type, or raise the same exception class.
"""
import operator

from hypothesis import strategies as st

import param
from vlib.core import Result

ID = "C09"
LEVEL = "exploration"
RULE = ("Hypothesis-generated expression DAGs (<=10 nodes, earlier nodes reusable so sub-expressions are shared and an input can "
        "be both pipeline root and argument) over two int rx roots, a str root, a list root, two Parameters of one object, a "
        "third Parameter of another object and a bind of two Parameters; node kinds: every binary operator in the three "
        "orientations node.const / const.node / node.node (+ - * / // % ** << >> & | ^ @ divmod == != < <= > >=), unary (- + ~ "
        "abs round), [] with constant or reactive index or a slice whose parts may be reactive, method and attribute access on the value, and the .rx helpers pipe, "
        "where, and_, or_, not_, bool, len, in_, is_, is_not, map; histories (<=10 steps) of root / parameter updates, batches "
        "and reads (reads populate caches) with .rx.watch callbacks on some nodes; the tail of the DAG may be derived in mid-history (after reads and updates of the nodes it builds on); the bind input takes its arguments positionally, or by keyword as Parameters / rx / bound functions; the guard pattern where(d != 0, n // d, c) is generated on purpose; plus a complete sweep of the operator table "
        "(operator x orientation x operand type); oracle = mirror evaluator (value and exact type, or exception class; recovery "
        "after the inputs are valid again) and, for watched nodes, a call carrying the fresh value whenever the plain value "
        "changed. Non-trivial = the DAG has a shared sub-expression or a where/bind/pipe node and the history reads a node, "
        "updates an input and reads the node again; distinct = case hash. pipe functions may take an extra positional or keyword argument (one keyword is named reverse) and one pipe function returns True / 1 / 1.0 for different inputs (equal results of different type), with an enumerated table of its consumers read before and after the type moves.")
ASSUMPTIONS = [
    "operand magnitudes are kept small by construction (shift amounts / exponents come from constants or nodes known to be small)",
    "the mirror evaluator is the oracle: Python's own operators applied to the current input values",
]
SIZES = {"quick": 1500, "thorough": 10000}
EXHAUSTIVE_NOTE = ("operator table: every binary operator x {node.const, const.node, node.node} x operand values, every unary "
                   "operator (incl. reflected sequence concatenation); slice table: reactive start / stop / step in turn x read/update/read; "
                   "argument table: pipeline root kind x form of the other operand x read/update/read histories")


class Mat:
    """tiny class with __matmul__/__rmatmul__ (value semantics)"""

    def __init__(self, v):
        self.v = v

    def __matmul__(self, o):
        if not isinstance(o, (Mat, int)):
            return NotImplemented       # lets Python dispatch to the reflected operator of the other operand
        return Mat(self.v * 10 + (o.v if isinstance(o, Mat) else o))

    def __rmatmul__(self, o):
        if not isinstance(o, (Mat, int)):
            return NotImplemented
        return Mat((o.v if isinstance(o, Mat) else o) * 100 + self.v)

    def __eq__(self, o):
        return isinstance(o, Mat) and o.v == self.v

    def __repr__(self):
        return f"Mat({self.v})"


BINOPS = {
    "+": operator.add, "-": operator.sub, "*": operator.mul, "/": operator.truediv, "//": operator.floordiv, "%": operator.mod,
    "**": operator.pow, "<<": operator.lshift, ">>": operator.rshift, "&": operator.and_, "|": operator.or_, "^": operator.xor,
    "@": operator.matmul, "divmod": divmod, "==": operator.eq, "!=": operator.ne, "<": operator.lt, "<=": operator.le,
    ">": operator.gt, ">=": operator.ge,
}
UNOPS = {"neg": operator.neg, "pos": operator.pos, "inv": operator.inv, "abs": abs, "round": round}
PIPES = {"double": lambda v: v * 2, "tostr": lambda v: str(v), "plus1": lambda v: v + 1,
         # results that compare equal but differ in type (True == 1 == 1.0): what is computed from them must follow all the same
         "one3": lambda v: True if v < 0 else (1 if v % 2 == 0 else 1.0)}
# pipe functions taking more than the piped value: (function, how the extra argument is passed)
PIPES_X = {"scale": (lambda v, by=1: v * by, "by"), "rev": (lambda v, reverse=False: -v if reverse else v, "reverse"),
           "addpos": (lambda v, k: v + k, None)}


def _pipe_call(spec, piped, pipe=None):
    """pipe is None: the plain-Python result; else the .rx.pipe method of the piped expression"""
    if spec[2] in PIPES:
        return PIPES[spec[2]](piped) if pipe is None else pipe(PIPES[spec[2]])
    fn, kwname = PIPES_X[spec[2]]
    extra = bool(spec[3]) if spec[2] == "rev" else spec[3]
    if kwname is None:
        return fn(piped, extra) if pipe is None else pipe(fn, extra)
    return fn(piped, **{kwname: extra}) if pipe is None else pipe(fn, **{kwname: extra})


MAPS = {"double": lambda v: v * 2, "neg": lambda v: -v}

# input slots: 0,1 int roots; 2 str root; 3 list root; 4,5 Parameters a,b of one object; 6 Parameter c of another; 7 bind(a+b)
INPUT_TYPES = ["int", "int", "str", "list", "int", "int", "int", "int"]
_intv = st.one_of(st.integers(-5, 6), st.integers(-5, 6), st.just(0))
_strv = st.sampled_from(["", "a", "ab", "Abc", "aab"])
_listv = st.lists(st.integers(-3, 3), max_size=4)


def _inputv(t):
    return {"int": _intv, "str": _strv, "list": _listv}[t]


@st.composite
def _dag(draw):
    nodes = []      # (spec, type)
    n = draw(st.integers(2, 10))

    def of(*types):
        return [i for i, (_s, t) in enumerate(nodes) if t in types]

    for _ in range(n):
        cands = ["root"]
        ints = of("int", "small", "bool")
        if ints:
            cands += ["bin", "bin", "bin", "un", "cmp", "smallify", "helper_num", "where", "pipe", "mat", "guard", "attr"]
        if of("str"):
            cands += ["strop"]
        if of("list"):
            cands += ["listop", "map"]
        if of("bool", "small", "int"):
            cands += ["logic"]
        k = draw(st.sampled_from(cands))
        if k == "root":
            i = draw(st.sampled_from([0, 1, 2, 3, 4, 4, 5, 6, 7, 4, 0]))
            nodes.append((["root", i], INPUT_TYPES[i]))
        elif k == "bin":
            op = draw(st.sampled_from(["+", "-", "*", "//", "%", "&", "|", "^", "/", "divmod", "**", "<<", ">>"]))
            a = draw(st.sampled_from(ints))
            orient = draw(st.sampled_from(["nc", "cn", "nn"]))
            if op in ("**", "<<", ">>"):
                smalls = of("small", "bool")
                if orient == "nc":
                    spec = ["bin", op, ["n", a], ["c", draw(st.integers(-1, 4))]]
                elif smalls:
                    left = ["c", draw(st.integers(-3, 5))] if orient == "cn" else ["n", a]
                    spec = ["bin", op, left, ["n", draw(st.sampled_from(smalls))]]
                else:
                    spec = ["bin", op, ["n", a], ["c", draw(st.integers(0, 3))]]
            elif orient == "nc" and draw(st.integers(0, 2)) == 0:
                # a Parameter object itself (not wrapped in rx) as the other operand
                spec = ["bin", op, ["n", a], ["p", draw(st.integers(4, 6))]]
            elif orient == "nc":
                spec = ["bin", op, ["n", a], ["c", draw(st.integers(-3, 4))]]
            elif orient == "cn":
                spec = ["bin", op, ["c", draw(st.integers(-3, 4))], ["n", a]]
            else:
                spec = ["bin", op, ["n", a], ["n", draw(st.sampled_from(ints))]]
            t = "tuple" if op == "divmod" else ("float" if op in ("/",) else "int")
            nodes.append((spec, t))
        elif k == "un":
            nodes.append((["un", draw(st.sampled_from(sorted(UNOPS))), draw(st.sampled_from(ints))], "int"))
        elif k == "cmp":
            op = draw(st.sampled_from(["==", "!=", "<", "<=", ">", ">="]))
            a = draw(st.sampled_from(ints))
            other = draw(st.one_of(st.tuples(st.just("c"), st.integers(-2, 3)), st.tuples(st.just("n"), st.sampled_from(ints)))).__class__
            rhs = draw(st.one_of(st.integers(-2, 3).map(lambda c: ["c", c]), st.sampled_from(ints).map(lambda j: ["n", j])))
            if draw(st.booleans()):
                spec = ["bin", op, ["n", a], rhs]
            else:
                spec = ["bin", op, rhs if rhs[0] == "c" else ["n", a], ["n", a]]
            nodes.append((spec, "bool"))
        elif k == "smallify":
            a = draw(st.sampled_from(ints))
            spec = draw(st.sampled_from([["bin", "%", ["n", a], ["c", 4]], ["bin", "&", ["n", a], ["c", 3]]]))
            nodes.append((spec, "small"))
        elif k == "helper_num":
            a = draw(st.sampled_from(ints))
            h = draw(st.sampled_from(["bool", "not_", "in_", "is_", "is_not"]))
            if h == "in_":
                spec = ["in_", a, draw(st.lists(st.integers(-3, 3), max_size=4))]
            elif h in ("is_", "is_not"):
                spec = [h, a, draw(st.sampled_from([None, True, 0]))]
            else:
                spec = [h, a]
            nodes.append((spec, "bool"))
        elif k == "where":
            conds = of("bool", "small", "int")
            c = draw(st.sampled_from(conds))
            x = draw(st.one_of(st.integers(-2, 3).map(lambda v: ["c", v]), st.sampled_from(ints).map(lambda j: ["n", j])))
            y = draw(st.one_of(st.integers(-2, 3).map(lambda v: ["c", v]), st.sampled_from(ints).map(lambda j: ["n", j])))
            nodes.append((["where", c, x, y], "int"))
        elif k == "attr":
            # a bare attribute access (`n.real`): the resulting node can be used by several later nodes like any other
            a = draw(st.sampled_from(ints))
            nodes.append((["attr", a, draw(st.sampled_from(["real", "imag", "numerator", "denominator"]))], "int"))
        elif k == "guard":
            # the guard pattern: (d != 0).rx.where(n // d, fallback) - the unselected branch may raise
            d_ = draw(st.sampled_from(ints))
            n_ = draw(st.sampled_from(ints))
            op = draw(st.sampled_from(["//", "%", "/"]))
            nodes.append((["bin", "!=", ["n", d_], ["c", 0]], "bool"))
            nodes.append((["bin", op, ["n", n_], ["n", d_]], "float" if op == "/" else "int"))
            c_, q_ = len(nodes) - 2, len(nodes) - 1
            if draw(st.booleans()):
                nodes.append((["where", c_, ["n", q_], ["c", draw(st.integers(-2, 3))]], "int"))
            else:
                nodes.append((["where", draw(st.sampled_from(of("bool", "small", "int"))), ["c", 7], ["n", q_]], "int"))
        elif k == "pipe":
            a = draw(st.sampled_from(ints))
            f = draw(st.sampled_from(["double", "plus1", "tostr", "scale", "rev", "addpos", "one3", "one3"]))
            nodes.append((["pipe", a, f] + ([draw(st.integers(0, 3))] if f in PIPES_X else []), "str" if f == "tostr" else "int"))
        elif k == "mat":
            a = draw(st.sampled_from(ints))
            nodes.append((["matmul", draw(st.sampled_from(["nc", "cn"])), a, draw(st.integers(0, 3))], "mat"))
        elif k == "strop":
            a = draw(st.sampled_from(of("str")))
            h = draw(st.sampled_from(["upper", "count", "len", "getitem", "add", "radd", "mul", "in_"]))
            if h == "upper":
                nodes.append((["method", a, "upper", []], "str"))
            elif h == "count":
                nodes.append((["method", a, "count", ["a"]], "small"))
            elif h == "len":
                nodes.append((["len", a], "small"))
            elif h == "getitem":
                nodes.append((["getitem", a, ["c", draw(st.integers(-2, 2))]], "str"))
            elif h == "add":
                nodes.append((["bin", "+", ["n", a], ["c", "x"]], "str"))
            elif h == "radd":
                nodes.append((["bin", "+", ["c", "left-"], ["n", a]], "str"))
            elif h == "mul":
                nodes.append((["bin", "*", ["n", a], ["c", 2]], "str"))
            else:
                nodes.append((["in_", a, ["a", "ab", ""]], "bool"))
        elif k == "listop":
            a = draw(st.sampled_from(of("list")))
            h = draw(st.sampled_from(["len", "getitem", "getitem_node", "radd", "count", "add", "slice", "slice", "slice_step"]))
            if h == "len":
                nodes.append((["len", a], "small"))
            elif h == "getitem":
                nodes.append((["getitem", a, ["c", draw(st.integers(-2, 3))]], "int"))
            elif h == "getitem_node" and of("small", "int"):
                nodes.append((["getitem", a, ["n", draw(st.sampled_from(of("small", "int")))]], "int"))
            elif h == "radd":
                nodes.append((["bin", "+", ["c", [9]], ["n", a]], "list"))
            elif h == "slice_step" and of("small"):
                nodes.append((["getslice", a, None, None, ["n", draw(st.sampled_from(of("small")))]], "list"))     # data[::k]
            elif h == "slice":
                # a slice whose start / stop / step may each be absent, a constant or another node (data[::k], data[i:], ...)
                def part(cands):
                    smalls = of("small")
                    opts = [st.none(), st.sampled_from(cands).map(lambda c: ["c", c])]
                    if smalls:
                        opts.append(st.sampled_from(smalls).map(lambda j: ["n", j]))
                        opts.append(st.sampled_from(smalls).map(lambda j: ["n", j]))
                    return draw(st.one_of(*opts))
                nodes.append((["getslice", a, part([0, 1, -1]), part([1, 2, 3, -1]), part([1, 2, -1, 0])], "list"))
            elif h == "count":
                nodes.append((["method", a, "count", [0]], "small"))
            else:
                nodes.append((["bin", "+", ["n", a], ["c", [7]]], "list"))
        elif k == "map":
            a = draw(st.sampled_from(of("list")))
            nodes.append((["map", a, draw(st.sampled_from(["double", "neg"]))], "list"))
        elif k == "logic":
            a = draw(st.sampled_from(of("bool", "small", "int")))
            b = draw(st.sampled_from(of("bool", "small", "int")))
            nodes.append(([draw(st.sampled_from(["and_", "or_"])), a, b], "int"))
    return [s for s, _t in nodes]


def _refs(spec):
    """indices of the nodes a node is derived from"""
    k = spec[0]
    ops = []
    if k == "bin":
        ops = [spec[2], spec[3]]
        return [o[1] for o in ops if o[0] == "n"]
    if k in ("un", "matmul"):
        return [spec[2]]
    if k == "getitem":
        return [spec[1]] + ([spec[2][1]] if spec[2][0] == "n" else [])
    if k == "getslice":
        return [spec[1]] + [o[1] for o in spec[2:5] if o is not None and o[0] == "n"]
    if k in ("and_", "or_"):
        return [spec[1], spec[2]]
    if k == "where":
        return [spec[1]] + [o[1] for o in (spec[2], spec[3]) if o[0] == "n"]
    if k == "root":
        return []
    return [spec[1]]


@st.composite
def _case(draw):
    dag = draw(_dag())
    n = len(dag)
    inputs = [draw(_inputv(t)) for t in INPUT_TYPES[:7]]
    step = st.one_of(
        st.tuples(st.just("read"), st.integers(0, n - 1)),
        st.tuples(st.just("read"), st.integers(0, n - 1)),
        st.integers(0, 6).flatmap(lambda i: st.tuples(st.just("set"), st.just(i), _inputv(INPUT_TYPES[i]))),
        st.integers(0, 6).flatmap(lambda i: st.tuples(st.just("set"), st.just(i), _inputv(INPUT_TYPES[i]))),
        st.tuples(st.just("batch"), _intv, _intv),
    ).map(list)
    # read a node, update an input, read the same node again (the first read populated the caches)
    rur = st.tuples(st.integers(0, n - 1), st.integers(0, 6)).flatmap(
        lambda t: _inputv(INPUT_TYPES[t[1]]).map(lambda v: [["read", t[0]], ["set", t[1], v], ["read", t[0]]]))
    # read a node; if it raises in plain Python, repair ONE input so that it no longer does, and read again
    heal = st.integers(0, n - 1).map(lambda i: [["read", i], ["heal", i], ["read", i]])
    steps = draw(st.lists(st.one_of(step.map(lambda s: [s]), rur, heal), min_size=1, max_size=6))
    flat = [s for group in steps for s in group]
    case = {"dag": dag, "inputs": inputs, "watch": draw(st.lists(st.integers(0, n - 1), max_size=2, unique=True)),
            "steps": flat,
            # how the bind input (slot 7) receives its two arguments
            "bind_form": draw(st.sampled_from(["pos", "kw_param", "kw_rx", "kw_bound"])),
            # the list input (slot 3) is an rx root, or a List parameter of an object (which can also change in place:
            # append + param.trigger, the documented way)
            "list_input": draw(st.sampled_from(["rx", "param", "param"]))}
    if case["list_input"] == "param" and any(sp[0] == "root" and sp[1] == 3 for sp in dag):
        for _ in range(draw(st.integers(0, 2))):
            flat.insert(draw(st.integers(0, len(flat))), ["mutate3", draw(st.integers(-3, 3))])
        if draw(st.booleans()):
            # ... and one of the watched nodes is the list input itself (the callback receives the very object that changes)
            first = [i for i, sp in enumerate(dag) if sp[0] == "root" and sp[1] == 3][0]
            case["watch"] = sorted(set(case["watch"][:1] + [first]))
    if n >= 3 and draw(st.booleans()):
        # the last nodes of the DAG are derived later, in the middle of the history (from nodes whose caches may be stale)
        lf = case["late_from"] = draw(st.integers(1, n - 1))
        at = draw(st.integers(0, len(flat)))
        # ... typically right after an early node a late node builds on was read (cache filled) and one of the inputs
        # present in the DAG changed (cache stale)
        bridges = sorted({r for sp in dag[lf:] for r in _refs(sp) if r < lf}) or list(range(lf))
        slots = sorted({(sp[1] if sp[1] != 7 else 4) for sp in dag[:lf] if sp[0] == "root"}) or [0]
        slot = draw(st.sampled_from(slots))
        users = [i for i in range(lf, n) if any(r < lf for r in _refs(dag[i]))] or list(range(lf, n))
        motif = [["read", draw(st.sampled_from(bridges))], ["set", slot, draw(_inputv(INPUT_TYPES[slot]))], ["build_rest"],
                 ["read", draw(st.sampled_from(users))]]
        if draw(st.integers(0, 3)) == 0:
            motif = [["build_rest"]]
        flat[at:at] = motif
    return case


def strategy(tier):
    return _case()


def enumerate_cases(tier):
    ints = [-3, 0, 2, 5]
    for op in BINOPS:
        if op == "@":
            for orient in ("nc", "cn"):
                yield {"dag": [["root", 0], ["matmul", orient, 0, 2]], "inputs": [2, 1, "a", [], 1, 2, 3], "watch": [], "steps": [["read", 1], ["set", 0, 3], ["read", 1]]}
            continue
        for a in ints:
            for c in ([-1, 0, 2, 3] if op not in ("**", "<<", ">>") else [0, 1, 3]):
                inputs = [a, c, "a", [], 1, 2, 3]
                yield {"dag": [["root", 0], ["bin", op, ["n", 0], ["c", c]]], "inputs": inputs, "watch": [], "steps": [["read", 1]]}
                yield {"dag": [["root", 1], ["bin", op, ["c", a], ["n", 0]]], "inputs": inputs, "watch": [], "steps": [["read", 1]]}
                yield {"dag": [["root", 0], ["root", 1], ["bin", op, ["n", 0], ["n", 1]]], "inputs": inputs, "watch": [],
                       "steps": [["read", 2], ["set", 1, c], ["read", 2]]}
    for op in UNOPS:
        for a in ints:
            yield {"dag": [["root", 0], ["un", op, 0]], "inputs": [a, 0, "a", [], 1, 2, 3], "watch": [], "steps": [["read", 1]]}
    # reflected forms with operands for which the operator is not commutative (sequence concatenation / repetition)
    for root, consts in ((2, ["x-", ""]), (3, [[9], []])):
        for c in consts:
            for op in ("+",):
                yield {"dag": [["root", root], ["bin", op, ["c", c], ["n", 0]]], "inputs": [1, 2, "ab", [1, 2], 1, 2, 3], "watch": [],
                       "steps": [["read", 1], ["set", root, "b" if root == 2 else [3]], ["read", 1]]}
                yield {"dag": [["root", root], ["bin", op, ["n", 0], ["c", c]]], "inputs": [1, 2, "ab", [1, 2], 1, 2, 3], "watch": [],
                       "steps": [["read", 1]]}
        yield {"dag": [["root", root], ["bin", "*", ["c", 2], ["n", 0]]], "inputs": [1, 2, "ab", [1, 2], 1, 2, 3], "watch": [],
               "steps": [["read", 1]]}
    # equal-but-different-type table: an intermediate node moves between True, 1 and 1.0 (which compare equal) after it and
    # its consumers were read; the consumers (str, + 1, * 2, a list index, or_ / and_) are read again
    for root in (0, 4):
        for v1 in (-1, 2, 3):
            for v2 in (-1, 2, 3):
                if v1 == v2:
                    continue
                for tail in (None, ["pipe", 1, "tostr"], ["pipe", 1, "plus1"], ["bin", "*", ["n", 1], ["c", 2]],
                             ["getitem", 2, ["n", 1]], ["or_", 1, 3], ["and_", 3, 1], ["attr", 1, "numerator"], ["attr", 1, "real"]):
                    dag = [["root", root], ["pipe", 0, "one3"]]
                    if tail is not None and tail[0] == "getitem":
                        dag = dag + [["root", 3], ["getitem", 2, ["n", 1]]]
                    elif tail is not None and tail[0] in ("or_", "and_"):
                        dag = dag + [["root", 1], ["bin", "!=", ["n", 2], ["c", 0]], tail]
                    elif tail is not None:
                        dag = dag + [tail]
                    last = len(dag) - 1
                    yield {"dag": dag, "inputs": [v1, 0, "a", [7, 8, 9], v1, 2, 3], "watch": [last],
                           "steps": [["read", last], ["read", 1], ["set", root, v2], ["read", last], ["read", 1],
                                     ["set", root, v1], ["set", root, v2], ["read", last]]}
    # slice table: each part of a slice (start / stop / step) reactive in turn, the other parts absent or constant;
    # read, change the input behind the reactive part, read again
    for pos in range(3):
        for others in ((None, None), (["c", 1], None), (None, ["c", 3]), (["c", 0], ["c", -1])):
            parts = list(others)
            parts.insert(pos, ["n", 2])
            if pos == 2:
                parts = [others[0], others[1], ["n", 2]]
            elif pos == 0:
                parts = [["n", 2], others[0], others[1] if others[1] != ["c", -1] else ["c", 2]]
            else:
                parts = [others[0], ["n", 2], others[1] if others[1] != ["c", -1] else ["c", 2]]
            dag = [["root", 3], ["root", 0], ["bin", "%", ["n", 1], ["c", 4]], ["getslice", 0] + parts]
            steps = [["read", 3]]
            for v in (3, 1, 2, 0, 5):
                steps += [["set", 0, v], ["read", 3]]
            yield {"dag": dag, "inputs": [2, 1, "a", [1, 2, 3, 4, 5], 1, 2, 3], "watch": [3], "steps": steps}
    # argument table: pipeline root x form of the other operand (another rx root, a raw Parameter of the same / another
    # object, an rx over a Parameter of the same object) x which side is updated between two reads
    hist = [["read", -1], ["set", "ARG", 9], ["read", -1], ["set", "ROOT", 4], ["read", -1], ["batch", 5, 6], ["read", -1],
            ["set", "ARG", 0], ["read", -1], ["set", "ARG", 2], ["read", -1]]
    for root in (0, 4, 7):
        for arg in (("n", 1), ("p", 5), ("p", 6), ("n", 5), ("n", 6)):
            for op in ("+", "//", "-"):
                for orient in ("na", "an"):
                    if orient == "an" and arg[0] == "p":
                        continue        # a raw Parameter as the left operand is not an expression
                    dag = [["root", root]]
                    if arg[0] == "n":
                        dag.append(["root", arg[1]])
                        other = ["n", 1]
                    else:
                        other = ["p", arg[1]]
                    dag.append(["bin", op, ["n", 0], other] if orient == "na" else ["bin", op, other, ["n", 0]])
                    last = len(dag) - 1
                    steps = []
                    for st_ in hist:
                        if st_[0] == "read":
                            steps.append(["read", last])
                        elif st_[0] == "batch":
                            steps.append(list(st_))
                        else:
                            slot = arg[1] if st_[1] == "ARG" else (root if root != 7 else 4)
                            steps.append(["set", slot, st_[2]])
                    yield {"dag": dag, "inputs": [3, 2, "a", [], 1, 2, 3], "watch": [last], "steps": steps}


def execute(case):
    res = Result()
    dag = case["dag"]
    vals = list(case["inputs"])             # current plain values of input slots 0..6
    L = type("L", (param.Parameterized,), {"items": param.List(default=[])})
    lobj = L(items=list(vals[3]))
    list_param = case.get("list_input") == "param"
    roots = [param.rx(vals[0]), param.rx(vals[1]), param.rx(vals[2]), lobj.param.items.rx() if list_param else param.rx(list(vals[3]))]
    P = type("P", (param.Parameterized,), {"a": param.Integer(default=0), "b": param.Integer(default=0)})
    Q = type("Q", (param.Parameterized,), {"c": param.Integer(default=0)})
    p, q = P(a=vals[4], b=vals[5]), Q(c=vals[6])
    bf = case.get("bind_form", "pos")
    if bf == "pos":
        bound = param.bind(lambda a, b: a + b, p.param.a, p.param.b)
    elif bf == "kw_param":
        bound = param.bind(lambda a, b: a + b, a=p.param.a, b=p.param.b)
    elif bf == "kw_rx":
        bound = param.bind(lambda a, b: a + b, a=p.param.a.rx(), b=p.param.b.rx())
    else:
        bound = param.bind(lambda a, b: a + b, a=param.bind(lambda v: v, p.param.a), b=param.bind(lambda v: v, p.param.b))

    def input_rx(i):
        if i < 4:
            return roots[i]
        if i == 4:
            return p.param.a.rx()
        if i == 5:
            return p.param.b.rx()
        if i == 6:
            return q.param.c.rx()
        return param.rx(bound)

    def input_plain(i):
        if i == 7:
            return vals[4] + vals[5]
        v = vals[i]
        return list(v) if isinstance(v, list) else v

    marks = set()
    rxn = []
    used = {}

    def rx_operand(o):
        if o[0] == "c":
            return o[1]
        if o[0] == "p":
            marks.add("parameter_object_operand")
            return {4: p.param.a, 5: p.param.b, 6: q.param.c}[o[1]]
        used[o[1]] = used.get(o[1], 0) + 1
        return rxn[o[1]]

    # ---- build the reactive DAG (possibly in two instalments: the nodes from `late_from` on are derived in mid-history) ----
    def build_nodes(limit):
        """builds nodes len(rxn)..limit-1; False = stop the case (recorded as violation or don't-care)"""
        for spec in dag[len(rxn):limit]:
            k = spec[0]
            try:
                if k == "root":
                    node = input_rx(spec[1])
                elif k == "bin":
                    a, b = rx_operand(spec[2]), rx_operand(spec[3])
                    node = BINOPS[spec[1]](a, b)
                    marks.add("op:" + spec[1] + ":" + spec[2][0] + spec[3][0])
                elif k == "un":
                    used[spec[2]] = used.get(spec[2], 0) + 1
                    node = UNOPS[spec[1]](rxn[spec[2]])
                elif k == "matmul":
                    used[spec[2]] = used.get(spec[2], 0) + 1
                    m = rxn[spec[2]].rx.pipe(Mat)
                    node = (m @ Mat(spec[3])) if spec[1] == "nc" else (Mat(spec[3]) @ m)
                    marks.add("op:@:" + spec[1])
                elif k == "getitem":
                    used[spec[1]] = used.get(spec[1], 0) + 1
                    node = rxn[spec[1]][rx_operand(spec[2])]
                elif k == "attr":
                    used[spec[1]] = used.get(spec[1], 0) + 1
                    node = getattr(rxn[spec[1]], spec[2])
                    marks.add("attribute_access")
                elif k == "getslice":
                    used[spec[1]] = used.get(spec[1], 0) + 1
                    node = rxn[spec[1]][slice(*[None if o is None else rx_operand(o) for o in spec[2:5]])]
                    marks.add("slice_index")
                elif k == "method":
                    used[spec[1]] = used.get(spec[1], 0) + 1
                    node = getattr(rxn[spec[1]], spec[2])(*spec[3])
                elif k == "len":
                    used[spec[1]] = used.get(spec[1], 0) + 1
                    node = rxn[spec[1]].rx.len()
                elif k in ("bool", "not_"):
                    used[spec[1]] = used.get(spec[1], 0) + 1
                    node = getattr(rxn[spec[1]].rx, k)()
                elif k == "in_":
                    used[spec[1]] = used.get(spec[1], 0) + 1
                    node = rxn[spec[1]].rx.in_(spec[2])
                elif k in ("is_", "is_not"):
                    used[spec[1]] = used.get(spec[1], 0) + 1
                    node = getattr(rxn[spec[1]].rx, k)(spec[2])
                elif k in ("and_", "or_"):
                    used[spec[1]] = used.get(spec[1], 0) + 1
                    used[spec[2]] = used.get(spec[2], 0) + 1
                    node = getattr(rxn[spec[1]].rx, k)(rxn[spec[2]])
                elif k == "where":
                    used[spec[1]] = used.get(spec[1], 0) + 1
                    # .rx.where returns a bound function (with an .rx namespace); param.rx() makes it an expression again
                    node = param.rx(rxn[spec[1]].rx.where(rx_operand(spec[2]), rx_operand(spec[3])))
                    marks.add("where")
                elif k == "pipe":
                    used[spec[1]] = used.get(spec[1], 0) + 1
                    node = _pipe_call(spec, None, rxn[spec[1]].rx.pipe)
                    marks.add("pipe")
                    if spec[2] in PIPES_X:
                        marks.add("pipe_with_extra_argument:" + spec[2])
                elif k == "map":
                    used[spec[1]] = used.get(spec[1], 0) + 1
                    node = rxn[spec[1]].rx.map(MAPS[spec[2]])
                else:
                    raise ValueError(spec)
            except Exception as e:  # noqa: BLE001
                # building the expression itself failed: would plain Python fail on the current values too?
                pv = _plain_all(dag[: len(rxn) + 1], input_plain)
                if isinstance(pv[-1], _Err) and type(pv[-1].e) is type(e):
                    res.dontcare += 1
                else:
                    res.fail("C09.operator_form_unsupported", f"building node {len(rxn)} {spec!r} raised {type(e).__name__}: {e} "
                                                              f"while plain Python gives {pv[-1]!r}")
                return False
            rxn.append(node)
        return True

    late_from = case.get("late_from") or len(dag)
    if not build_nodes(late_from):
        return res
    if any(c >= 2 for c in used.values()):
        marks.add("shared_subexpression")
    if any(s[0] == "root" and s[1] == 7 for s in dag):
        marks.add("bind")

    watch_log = {i: [] for i in case["watch"]}
    watched = set()

    def install_watches():
        for i in case["watch"]:
            if i < len(rxn) and i not in watched:
                watched.add(i)
                rxn[i].rx.watch(lambda v, i=i: watch_log[i].append(v))
    install_watches()

    def read(i, tag):
        want = _plain_all(dag, input_plain)[i]
        try:
            got = rxn[i].rx.value
            err = None
        except Exception as e:  # noqa: BLE001
            got, err = None, e
        if isinstance(want, _Err):
            if err is None:
                res.fail("C09.exception_not_raised", f"{tag}: node {i} {dag[i]!r} gave {got!r}, plain Python raises "
                                                     f"{type(want.e).__name__} (inputs {vals!r})")
            elif type(err) is not type(want.e):
                res.fail("C09.different_exception", f"{tag}: node {i} {dag[i]!r} raised {type(err).__name__}: {err}, plain Python "
                                                    f"raises {type(want.e).__name__} (inputs {vals!r})")
            return
        if err is not None:
            clause = "C09.no_recovery" if errored.get(i) else "C09.unexpected_exception"
            res.fail(clause, f"{tag}: node {i} {dag[i]!r} raised {type(err).__name__}: {err}; plain Python gives {want!r} "
                             f"(inputs {vals!r})")
            return
        if type(got) is not type(want) or got != want:
            res.fail("C09.value_differs", f"{tag}: node {i} {dag[i]!r} evaluates to {got!r} ({type(got).__name__}), plain Python "
                                          f"gives {want!r} ({type(want).__name__}) (inputs {vals!r}; dag {dag!r})")

    errored = {}
    read_then_update_then_read = False
    reads_before_update = set()
    updated_since = {}
    for si, step in enumerate(case["steps"]):
        tag = f"step{si}:{step!r}"
        k = step[0]
        if k == "build_rest":
            if len(rxn) < len(dag):
                marks.add("derived_in_mid_history")
                if not build_nodes(len(dag)):
                    return res
                install_watches()
            continue
        if k == "read":
            i = step[1] % len(dag)
            if i >= len(rxn):
                continue            # not derived yet
            read(i, tag)
            want = _plain_all(dag, input_plain)[i]
            errored[i] = isinstance(want, _Err)
            if updated_since.get(i):
                read_then_update_then_read = True
            reads_before_update.add(i)
            updated_since[i] = False
        else:
            if k == "heal":
                i = step[1] % len(dag)
                if not isinstance(_plain_all(dag, input_plain)[i], _Err):
                    continue
                found = None
                for slot in (6, 5, 4, 1, 0, 3, 2):
                    saved = vals[slot]
                    for cand in {"int": [2, 1, 3, -1], "str": ["ab", "aab"], "list": [[1, 2, 3], [0, 1, 2, 3]]}[INPUT_TYPES[slot]]:
                        vals[slot] = cand
                        if not isinstance(_plain_all(dag, input_plain)[i], _Err):
                            found = (slot, cand)
                            break
                    vals[slot] = saved
                    if found:
                        break
                if not found:
                    continue
                step = ["set", found[0], found[1]]
                k = "set"
                marks.add("healed_by_single_input")
            before = _plain_all(dag, input_plain)
            for w in watch_log.values():
                del w[:]
            try:
                if k == "mutate3":
                    if not list_param:
                        continue
                    vals[3] = list(vals[3]) + [step[1]]
                    lobj.items.append(step[1])          # in place ...
                    lobj.param.trigger("items")         # ... and announced
                    marks.add("list_input_changed_in_place")
                elif k == "set":
                    i, v = step[1], step[2]
                    vals[i] = v
                    if i == 3 and list_param:
                        lobj.items = list(v)
                    elif i < 4:
                        roots[i].rx.value = list(v) if isinstance(v, list) else v
                    elif i == 4:
                        p.a = v
                    elif i == 5:
                        p.b = v
                    else:
                        q.c = v
                else:
                    vals[4], vals[5] = step[1], step[2]
                    p.param.update(a=step[1], b=step[2])
                    marks.add("batch")
            except Exception as e:  # noqa: BLE001
                # an update may surface the error of a watched expression: allowed only if plain Python errs too
                after = _plain_all(dag, input_plain)
                if not any(isinstance(x, _Err) for x in after) and not any(isinstance(x, _Err) for x in before):
                    res.fail("C09.update_raised", f"{tag}: updating an input raised {type(e).__name__}: {e} although no node of "
                                                  f"the expression raises in plain Python (dag {dag!r})")
                else:
                    res.dontcare += 1     # watchers / where-triggers may evaluate a node that errs: no claim about the update
                continue
            for i in reads_before_update:
                updated_since[i] = True
            after = _plain_all(dag, input_plain)
            for w, log in watch_log.items():
                if w not in watched:
                    continue
                b, a = before[w], after[w]
                if isinstance(b, _Err) or isinstance(a, _Err):
                    continue
                changed = type(a) is not type(b) or a != b
                if changed:
                    marks.add("watch_fired")
                    if not log:
                        res.fail("C09.watch_not_called", f"{tag}: node {w} {dag[w]!r} changed from {b!r} to {a!r} but its .rx.watch "
                                                         f"callback was not called (dag {dag!r})")
                    elif type(log[-1]) is not type(a) or log[-1] != a:
                        res.fail("C09.watch_stale_value", f"{tag}: node {w} changed to {a!r} but the callback last received {log[-1]!r}")
        if res.violations:
            break
    for m in marks:
        res.label(m)
    res.nontrivial = bool(marks & {"shared_subexpression", "where", "bind", "pipe"}) and read_then_update_then_read
    return res


class _Err:
    def __init__(self, e):
        self.e = e

    def __repr__(self):
        return f"<raises {type(self.e).__name__}>"


def _plain_all(dag, input_plain):
    out = []

    def operand(o):
        if o[0] == "c":
            v = o[1]
            return list(v) if isinstance(v, list) else v
        if o[0] == "p":
            return input_plain(o[1])
        v = out[o[1]]
        if isinstance(v, _Err):
            raise v.e
        return v

    def node(i):
        v = out[i]
        if isinstance(v, _Err):
            raise v.e
        return v

    for spec in dag:
        k = spec[0]
        try:
            if k == "root":
                v = input_plain(spec[1])
            elif k == "bin":
                v = BINOPS[spec[1]](operand(spec[2]), operand(spec[3]))
            elif k == "un":
                v = UNOPS[spec[1]](node(spec[2]))
            elif k == "matmul":
                m = Mat(node(spec[2]))
                v = (m @ Mat(spec[3])) if spec[1] == "nc" else (Mat(spec[3]) @ m)
            elif k == "getitem":
                v = node(spec[1])[operand(spec[2])]
            elif k == "attr":
                v = getattr(node(spec[1]), spec[2])
            elif k == "getslice":
                v = node(spec[1])[slice(*[None if o is None else operand(o) for o in spec[2:5]])]
            elif k == "method":
                v = getattr(node(spec[1]), spec[2])(*spec[3])
            elif k == "len":
                v = len(node(spec[1]))
            elif k == "bool":
                v = bool(node(spec[1]))
            elif k == "not_":
                v = not node(spec[1])
            elif k == "in_":
                v = node(spec[1]) in spec[2]
            elif k == "is_":
                v = node(spec[1]) is spec[2]
            elif k == "is_not":
                v = node(spec[1]) is not spec[2]
            elif k == "and_":
                a, b = node(spec[1]), node(spec[2])     # x.rx.and_(y) is a call: both operands are evaluated
                v = a and b
            elif k == "or_":
                a, b = node(spec[1]), node(spec[2])
                v = a or b
            elif k == "where":
                c = node(spec[1])
                v = operand(spec[2]) if c else operand(spec[3])
            elif k == "pipe":
                v = _pipe_call(spec, node(spec[1]))
            elif k == "map":
                v = [MAPS[spec[2]](x) for x in node(spec[1])]
            else:
                raise ValueError(spec)
        except Exception as e:  # noqa: BLE001
            v = _Err(e)
        out.append(v)
    return out
