"""C10 - the latest assignment wins under every asynchronous completion order.

The harness owns the schedule: every awaitable is backed by a future it created on a real asyncio
loop; a case is a sequence of steps (assign i / resolve future f), each followed by a fixed number of
`await asyncio.sleep(0)` drains.  Nothing sleeps on the wall clock.
"""
import asyncio

from hypothesis import strategies as st

import param
from vlib.core import Result

ID = "C10"
LEVEL = "exploration"
RULE = ("a schedule = N assignments to an allow_refs parameter (coroutine function awaiting its own future / async generator "
        "yielding once per future of a list of <=2 / plain value) interleaved with the resolution of the pending futures in any "
        "order consistent with causality, with or without letting the loop run between consecutive assignments; all schedules "
        "for N<=3 are enumerated completely (param variant), N=4 and the rx variant (root.rx.pipe(async fn) with the root "
        "updated <=4 times - optionally returning to earlier values (A, B, A), then judged by value -, every completion order) are sampled by Hypothesis; oracle = once everything completed the value is "
        "the result of the most recent assignment, no result of assignment i is seen after any result of assignment j>i, "
        "a plain value stays until the next assignment, and no task is left pending. Non-trivial = the completion order differs "
        "from the assignment order, or a plain assignment lands while an awaitable is pending; distinct = case hash.")
ASSUMPTIONS = [
    "synchronous generators are excluded (param runs them through asyncio.to_thread, whose scheduling the harness cannot own)",
    "each step is followed by 4 sleep(0) drains, enough for every ready task to run to its next await",
]
SIZES = {"quick": 600, "thorough": 6000}
EXHAUSTIVE_NOTE = ("param variant: every schedule of N assignments (coroutine / 1- or 2-yield async generator / plain value / "
                   "synchronous reference) x every causally possible completion order x drain / no drain between consecutive "
                   "assignments; thorough tier: all N<=3; quick tier: all N<=2 and N=3 except the kind tuples with two 2-yield "
                   "generators or (without any plain/synchronous assignment) two 1-yield generators; plus all 32 configurations "
                   "of the linked-object scenario (keyword order x override kind x 1-2 source changes x completion order x drains)")

KINDS = ["coro", "agen1", "agen2", "plain", "sref", "bad"]
# sref = a synchronous reference (a Parameter of another object); bad = an assignment that is rejected (wrong type) and
# therefore must change nothing: whatever was pending stays pending and still wins
NFUT = {"coro": 1, "agen1": 1, "agen2": 2, "plain": 0, "sref": 0, "bad": 0}


def _schedules(kinds):
    """All interleavings of assign steps (in order) and resolve steps (a future only after its assignment,
    the futures of one async generator in order)."""
    n = len(kinds)
    out = []

    def rec(next_assign, nextf, seq):
        done = next_assign == n and all(nextf[i] == NFUT[kinds[i]] for i in range(n))
        if done:
            out.append(list(seq))
            return
        if next_assign < n:
            rec(next_assign + 1, nextf, seq + [["assign", next_assign]])
        for i in range(next_assign):
            if nextf[i] < NFUT[kinds[i]]:
                nf = list(nextf)
                nf[i] += 1
                rec(next_assign, nf, seq + [["resolve", i, nextf[i]]])
    rec(0, [0] * n, [])
    return out


def enumerate_cases(tier):
    import itertools
    maxn = 3
    for n in range(1, maxn + 1):
        for kinds in itertools.product(KINDS, repeat=n):
            if all(k in ("plain", "sref", "bad") for k in kinds):
                continue
            if kinds.count("bad") > 1 or (tier == "quick" and n == 3 and "bad" in kinds and ("agen2" in kinds or "agen1" in kinds)):
                continue
            if tier == "quick" and n == 3 and kinds.count("sref") + kinds.count("plain") == 0 and kinds.count("agen1") >= 2:
                continue
            if tier == "quick" and n == 3 and kinds.count("agen2") >= 2:
                continue            # the largest schedule families are left to the thorough tier
            for sched in _schedules(kinds):
                for drain in (True, False):
                    if not drain and n == 1:
                        continue
                    yield {"variant": "param", "kinds": list(kinds), "steps": sched, "drain_after_assign": drain}
    # --- one source feeding a synchronous and an asynchronous link of one object (complete) ---------------------
    for kw in (["y", "x"], ["x", "y"]):
        for ov in ("plain", "coro"):
            for bumps in (1, 2):
                for order in ("fifo", "lifo"):
                    for db in (True, False):
                        yield {"variant": "linked", "kw_order": kw, "override": ov, "bumps": bumps, "resolve_order": order,
                               "drain_between": db, "kinds": [], "steps": []}


@st.composite
def _case(draw):
    variant = draw(st.sampled_from(["param", "rx", "rx"]))
    if variant == "param":
        kinds = draw(st.lists(st.sampled_from(KINDS), min_size=4, max_size=4))
    else:
        # one pipeline pipes either through a coroutine function or through an async generator function
        k = draw(st.sampled_from(["coro", "coro", "agen2"]))
        kinds = [k] * draw(st.integers(2, 4))
    # one random interleaving, built step by step
    n = len(kinds)
    next_assign, nextf, seq = 0, [0] * n, []
    while True:
        choices = []
        if next_assign < n:
            choices.append(("a", None))
        for i in range(next_assign):
            if nextf[i] < NFUT[kinds[i]]:
                choices.append(("r", i))
        if not choices:
            break
        c = draw(st.sampled_from(choices))
        if c[0] == "a":
            seq.append(["assign", next_assign])
            next_assign += 1
        else:
            seq.append(["resolve", c[1], nextf[c[1]]])
            nextf[c[1]] += 1
    case = {"variant": variant, "kinds": kinds, "steps": seq, "drain_after_assign": draw(st.booleans())}
    if variant == "rx" and draw(st.booleans()):
        # the root may return to a value it had before (A, B, A, ...): consecutive updates differ, results are judged by value
        vals = []
        for _ in range(n):
            vals.append(draw(st.sampled_from([v for v in (0, 1, 2) if not vals or v != vals[-1]])))
        case["root_vals"] = vals
    return case


def strategy(tier):
    return _case()


async def _drain(k=4):
    for _ in range(k):
        await asyncio.sleep(0)


def _result(kinds, i, j=None):
    k = kinds[i]
    if k == "plain":
        return f"p{i}"
    if k == "sref":
        return f"s{i}"
    if k == "coro":
        return f"r{i}"
    return f"g{i}.{j if j is not None else NFUT[k] - 1}"


def _owner(v):
    """assignment index a recorded value belongs to"""
    if isinstance(v, str) and v[:1] in "prgs" and v[1:2].isdigit():
        return int(v[1:].split(".")[0])
    return None


async def _run_param(case, res):
    kinds = case["kinds"]
    P = type("P", (param.Parameterized,), {"x": param.String(default="init", allow_refs=True)})
    p = P()
    S = type("S", (param.Parameterized,), {"v": param.Parameter(default="s?")})
    seen = []
    p.param.watch(lambda e: seen.append(e.new), "x")
    loop = asyncio.get_running_loop()
    futs = {}
    for i, k in enumerate(kinds):
        for j in range(NFUT[k]):
            futs[(i, j)] = loop.create_future()

    def make_ref(i):
        k = kinds[i]
        if k == "plain":
            return f"p{i}"
        if k == "sref":
            return S(v=f"s{i}").param.v
        if k == "bad":
            return 5 if i % 2 else S(v=7).param.v        # not a string: a plain value or a reference resolving to one
        if k == "coro":
            async def coro():
                return await futs[(i, 0)]
            return coro

        async def agen():
            for j in range(NFUT[k]):
                yield await futs[(i, j)]
        return agen

    last_assigned = None
    pending_when_plain = False
    for step in case["steps"]:
        if step[0] == "assign":
            i = step[1]
            if kinds[i] in ("plain", "sref", "bad") and any(not f.done() for (a, _j), f in futs.items() if a < i):
                pending_when_plain = True
            if kinds[i] == "bad":
                try:
                    p.x = make_ref(i)
                except ValueError:
                    pass
                else:
                    res.fail("C10.invalid_assignment_accepted", f"assignment {i} (a non-string) was accepted")
                if case["drain_after_assign"]:
                    await _drain()
                continue
            p.x = make_ref(i)
            last_assigned = i
            if case["drain_after_assign"]:
                await _drain()
        else:
            _r, i, j = step
            if not futs[(i, j)].done():      # cancelling a task also cancels the future it awaits
                futs[(i, j)].set_result(_result(kinds, i, j))
            await _drain()
        # a plain value stays until the next assignment
        if last_assigned is not None and kinds[last_assigned] in ("plain", "sref") and p.x != _result(kinds, last_assigned):
            res.fail("C10.plain_value_overwritten", f"after {step!r}: the value {_result(kinds, last_assigned)} assigned last was replaced by "
                                                    f"{p.x!r} (steps {case['steps']!r}, kinds {kinds!r})")
            break
    await _drain(8)
    accepted = [i for i, k in enumerate(kinds) if k != "bad"]
    want = _result(kinds, accepted[-1]) if accepted else "init"
    if p.x != want and not res.violations:
        res.fail("C10.latest_assignment_lost", f"kinds {kinds!r}, steps {case['steps']!r}, drain_after_assign="
                                               f"{case['drain_after_assign']}: final value {p.x!r}, the most recent assignment gives {want!r}; "
                                               f"values seen {seen!r}")
    hi = -1
    for v in seen:
        o = _owner(v)
        if o is None:
            continue
        if o < hi:
            res.fail("C10.superseded_result_applied", f"kinds {kinds!r}, steps {case['steps']!r}: a result of assignment {o} ({v!r}) was "
                                                      f"applied after a result of assignment {hi}; values seen {seen!r}")
            break
        hi = max(hi, o)
    return pending_when_plain


async def _run_linked(case, res):
    """One source feeds a synchronously linked parameter y and an asynchronously linked parameter x of the same object; a
    watcher of y assigns x (a plain value, which ends the link, or a new coroutine) while the dependency change is being
    synchronised.  That assignment is the latest one."""
    loop = asyncio.get_running_loop()
    futs = []

    async def afn(v):
        f = loop.create_future()
        futs.append((f, f"link{len(futs)}"))
        return await f

    S = type("S", (param.Parameterized,), {"v": param.Number(default=0)})
    T = type("T", (param.Parameterized,), {"y": param.Parameter(default=None, allow_refs=True),
                                           "x": param.Parameter(default="init", allow_refs=True)})
    src = S()
    refs = {"y": param.bind(lambda v: v, src.param.v), "x": param.bind(afn, src.param.v)}
    t = T(**{k: refs[k] for k in case["kw_order"]})
    ofuts = []

    def override(_event):
        if case["override"] == "plain":
            t.x = f"fallback{len(ofuts)}"
            ofuts.append(None)
        else:
            f = loop.create_future()
            name = f"over{len(ofuts)}"
            ofuts.append((f, name))

            async def again():
                return await f
            t.x = again
    t.param.watch(override, "y")
    await _drain()
    for b in range(case["bumps"]):
        src.v = b + 1
        if case["drain_between"]:
            await _drain()
    pend = list(futs) + [o for o in ofuts if o is not None]
    if case["resolve_order"] == "lifo":
        pend.reverse()
    for f, name in pend:
        if not f.done():
            f.set_result(name)
        await _drain()
    await _drain(8)
    want = f"fallback{len(ofuts) - 1}" if case["override"] == "plain" else f"over{len(ofuts) - 1}"
    if t.x != want:
        res.fail("C10.latest_assignment_lost", f"linked object, {case!r}: the watcher of the synchronously linked parameter assigned x "
                                               f"last ({want!r}) but the final value is {t.x!r}")
    return case["override"] == "plain"


async def _run_rx(case, res):
    kinds = case["kinds"]
    loop = asyncio.get_running_loop()
    futs = {}
    for i, k in enumerate(kinds):
        for j in range(NFUT[k]):
            futs[(i, j)] = loop.create_future()
    root = param.rx(-1)
    vals = case.get("root_vals") or list(range(len(kinds)))

    # judged by value: the root holds numbers that compare equal when the value returns (A, B, A -> 1, 2, 1.0) but tell the
    # evaluation which update it belongs to
    rootvals, lookup, seen_cls = [], {}, {}
    for i, k in enumerate(vals):
        if "root_vals" in case:
            occ = seen_cls.get(k, 0)
            seen_cls[k] = occ + 1
            rv = float(k + 1) if occ % 2 else int(k + 1)
        else:
            rv = i
        rootvals.append(rv)
        lookup[(type(rv), rv)] = i

    def idx_of(v):
        return lookup.get((type(v), v), -1)

    if kinds[0] == "coro":
        async def pipefn(v):
            if idx_of(v) < 0:
                return "init"
            return await futs[(idx_of(v), 0)]
    else:
        async def pipefn(v):
            i = idx_of(v)
            if i < 0:
                yield "init"
                return
            for j in range(NFUT[kinds[i]]):
                yield await futs[(i, j)]

    expr = root.rx.pipe(pipefn)
    seen = []
    expr.rx.watch(lambda v: seen.append(v))
    try:
        expr.rx.value
    except Exception:  # noqa: BLE001
        pass
    for step in case["steps"]:
        if step[0] == "assign":
            root.rx.value = rootvals[step[1]]
            try:
                expr.rx.value           # reading is what schedules the coroutine
            except Exception:  # noqa: BLE001
                pass
            if case["drain_after_assign"]:
                await _drain()
        else:
            _r, i, j = step
            if not futs[(i, j)].done():      # cancelling a task also cancels the future it awaits
                futs[(i, j)].set_result(_result(kinds, i, j))
            await _drain()
    await _drain(8)
    want = _result(kinds, len(kinds) - 1)
    try:
        got = expr.rx.value
    except Exception as e:  # noqa: BLE001
        got = e
    by_value = "root_vals" in case
    if by_value:
        # judged by value: any complete evaluation for the root's current value is a correct final result
        o = _owner(got) if isinstance(got, str) else None
        ok = o is not None and vals[o] == vals[-1] and got == _result(kinds, o)
        if not ok:
            res.fail("C10.rx_latest_lost", f"rx pipe, kinds {kinds!r}, root values {vals!r}, steps {case['steps']!r}, "
                                           f"drain_after_assign={case['drain_after_assign']}: final value {got!r} does not belong to an "
                                           f"evaluation for the current root value {vals[-1]!r}; watcher saw {seen!r}")
        return False
    if got != want:
        res.fail("C10.rx_latest_lost", f"rx pipe, kinds {kinds!r}, steps {case['steps']!r}, drain_after_assign={case['drain_after_assign']}: "
                                       f"final value {got!r}, the most recent root update gives {want!r}; watcher saw {seen!r}")
    hi = -1
    for v in seen:
        o = _owner(v)
        if o is None:
            continue
        if o < hi:
            res.fail("C10.rx_superseded_result_applied", f"rx pipe, kinds {kinds!r}, steps {case['steps']!r}: {v!r} delivered after "
                                                         f"a result of update {hi}; watcher saw {seen!r}")
            break
        hi = max(hi, o)
    return False


def execute(case):
    res = Result()
    from param import _utils
    flags = {}

    async def main():
        if case["variant"] == "param":
            flags["plain_pending"] = await _run_param(case, res)
        elif case["variant"] == "linked":
            flags["plain_pending"] = await _run_linked(case, res)
        else:
            flags["plain_pending"] = await _run_rx(case, res)
        await _drain(4)
        left = [t for t in _utils._running_tasks if not t.done()]
        if left:
            res.fail("C10.task_left_pending", f"{len(left)} task(s) created by the library are still pending after everything "
                                              f"completed (kinds {case['kinds']!r}, steps {case['steps']!r})")
            for t in left:
                t.cancel()
            await _drain(2)

    asyncio.run(main())
    _utils._running_tasks.clear()
    if case["variant"] == "linked":
        res.label("variant:linked", "override:" + case["override"])
        res.nontrivial = True
        return res
    # completion order vs assignment order
    order = [s[1] for s in case["steps"] if s[0] == "resolve"]
    out_of_order = order != sorted(order)
    resolved_before_later_assign = False
    res.label("variant:" + case["variant"], f"n:{len(case['kinds'])}", "drain" if case["drain_after_assign"] else "back_to_back")
    if out_of_order:
        res.label("completion_order_differs")
    if flags.get("plain_pending"):
        res.label("plain_while_pending")
    res.nontrivial = out_of_order or bool(flags.get("plain_pending")) or resolved_before_later_assign
    return res
