"""C10 - the latest assignment wins under every asynchronous completion order.

The harness owns the schedule: every awaitable is backed by a future it created on a real asyncio
loop; a case is a sequence of steps (assign i / resolve future f), each followed by a fixed number of
`await asyncio.sleep(0)` drains.  Nothing sleeps on the wall clock.
"""
import asyncio

from hypothesis import strategies as st

import param
from vlib.core import Result

ID = "C10"
LEVEL = "exploration"
RULE = ("a schedule = N assignments to an allow_refs parameter (coroutine function awaiting its own future / async generator "
        "yielding once per future of a list of <=2 / plain value) interleaved with the resolution of the pending futures in any "
        "order consistent with causality, with or without letting the loop run between consecutive assignments; all schedules "
        "for N<=3 are enumerated completely (param variant), N=4 and the rx variant (root.rx.pipe(async fn) with the root "
        "updated <=4 times - optionally returning to earlier values (A, B, A), then judged by value -, every completion order) are sampled by Hypothesis; oracle = once everything completed the value is "
        "the result of the most recent assignment, no result of assignment i is seen after any result of assignment j>i, "
        "a plain value stays until the next assignment, and no task is left pending. Non-trivial = the completion order differs "
        "from the assignment order, or a plain assignment lands while an awaitable is pending; distinct = case hash. Round 5: a coroutine whose result the parameter rejects (enumerated with newer coroutine / generator / plain assignments after it, sampled for N=4), superseded coroutines that fail in rx pipelines.")
ASSUMPTIONS = [
    "synchronous generators are excluded (param runs them through asyncio.to_thread, whose scheduling the harness cannot own)",
    "each step is followed by 4 sleep(0) drains, enough for every ready task to run to its next await",
]
SIZES = {"quick": 600, "thorough": 6000}
EXHAUSTIVE_NOTE = ("param variant: every schedule of N assignments (coroutine / 1- or 2-yield async generator / plain value / "
                   "synchronous reference) x every causally possible completion order x drain / no drain between consecutive "
                   "assignments; thorough tier: all N<=3; quick tier: all N<=2 and N=3 except the kind tuples with two 2-yield "
                   "generators or (without any plain/synchronous assignment) two 1-yield generators; plus all 32 configurations "
                   "of the linked-object scenario (keyword order x override kind x 1-2 source changes x completion order x drains), all configurations of the "
                   "update()-context scenario, of synchronous use with <=3 assignments, and of the re-assigning-watcher scenario")

KINDS = ["coro", "agen1", "agen2", "plain", "sref", "bad"]
# sref = a synchronous reference (a Parameter of another object); bad = an assignment that is rejected (wrong type) and
# therefore must change nothing: whatever was pending stays pending and still wins
NFUT = {"coro": 1, "agen1": 1, "agen2": 2, "plain": 0, "sref": 0, "bad": 0, "corobad": 1}
# corobad = a coroutine whose *result* is rejected by the parameter (not a string): the delivery fails inside its task and
# changes nothing; whatever is assigned afterwards is newer all the same


def _schedules(kinds):
    """All interleavings of assign steps (in order) and resolve steps (a future only after its assignment,
    the futures of one async generator in order)."""
    n = len(kinds)
    out = []

    def rec(next_assign, nextf, seq):
        done = next_assign == n and all(nextf[i] == NFUT[kinds[i]] for i in range(n))
        if done:
            out.append(list(seq))
            return
        if next_assign < n:
            rec(next_assign + 1, nextf, seq + [["assign", next_assign]])
        for i in range(next_assign):
            if nextf[i] < NFUT[kinds[i]]:
                nf = list(nextf)
                nf[i] += 1
                rec(next_assign, nf, seq + [["resolve", i, nextf[i]]])
    rec(0, [0] * n, [])
    return out


def enumerate_cases(tier):
    import itertools
    maxn = 3
    for n in range(1, maxn + 1):
        for kinds in itertools.product(KINDS, repeat=n):
            if all(k in ("plain", "sref", "bad") for k in kinds):
                continue
            if kinds.count("bad") > 1 or (tier == "quick" and n == 3 and "bad" in kinds and ("agen2" in kinds or "agen1" in kinds)):
                continue
            if tier == "quick" and n == 3 and kinds.count("sref") + kinds.count("plain") == 0 and kinds.count("agen1") >= 2:
                continue
            if tier == "quick" and n == 3 and kinds.count("agen2") >= 2:
                continue            # the largest schedule families are left to the thorough tier
            for sched in _schedules(kinds):
                for drain in (True, False):
                    if not drain and n == 1:
                        continue
                    yield {"variant": "param", "kinds": list(kinds), "steps": sched, "drain_after_assign": drain}
    # --- a coroutine whose result is rejected, followed by newer assignments (complete for these kind tuples) ----------
    for kinds in (("corobad", "plain"), ("corobad", "coro"), ("corobad", "coro", "plain"), ("corobad", "agen1", "plain"),
                  ("coro", "corobad", "plain"), ("corobad", "corobad", "coro"), ("plain", "corobad", "coro")):
        for sched in _schedules(kinds):
            for drain in (True, False):
                yield {"variant": "param", "kinds": list(kinds), "steps": sched, "drain_after_assign": drain}
    # --- update() context installing an asynchronous reference (complete) -----------------------------------------
    for kind in ("coro", "agen"):
        for before in ("default", "plain"):
            for di in (False, True):
                for deliver in (False, True):
                    for da in (False, True):
                        if deliver and not di:
                            continue
                        yield {"variant": "ctx", "kind": kind, "before": before, "drain_inside": di, "deliver_inside": deliver,
                               "drain_after": da, "kinds": [], "steps": []}
    # --- synchronous use (complete for <=3 assignments) --------------------------------------------------------------
    for n in (1, 2, 3):
        for kinds in itertools.product(("plain", "coro"), repeat=n):
            if "coro" not in kinds:
                continue
            for ctor in (True, False):
                for ub in (False, True):
                    for ua in (0, 2):
                        yield {"variant": "sync", "kinds": list(kinds), "first_in_ctor": ctor, "unrelated_between": ub,
                               "unrelated_after": ua, "hops": 1 + n % 2, "steps": []}
    # --- a watcher re-assigning the parameter while an async generator streams into it (complete) --------------------
    for how in ("direct_coro", "direct_agen", "dependency"):
        for order in ("old_first", "old_last"):
            yield {"variant": "restream", "how": how, "order": order, "kinds": [], "steps": []}
    # --- one source feeding a synchronous and an asynchronous link of one object (complete) ---------------------
    for kw in (["y", "x"], ["x", "y"]):
        for ov in ("plain", "coro"):
            for bumps in (1, 2):
                for order in ("fifo", "lifo"):
                    for db in (True, False):
                        yield {"variant": "linked", "kw_order": kw, "override": ov, "bumps": bumps, "resolve_order": order,
                               "drain_between": db, "kinds": [], "steps": []}


@st.composite
def _case(draw):
    variant = draw(st.sampled_from(["param", "rx", "rx"]))
    if variant == "param":
        kinds = draw(st.lists(st.sampled_from(KINDS + ["corobad"]), min_size=4, max_size=4))
    else:
        # one pipeline pipes either through a coroutine function or through an async generator function
        k = draw(st.sampled_from(["coro", "coro", "agen2"]))
        kinds = [k] * draw(st.integers(2, 4))
    # one random interleaving, built step by step
    n = len(kinds)
    next_assign, nextf, seq = 0, [0] * n, []
    while True:
        choices = []
        if next_assign < n:
            choices.append(("a", None))
        for i in range(next_assign):
            if nextf[i] < NFUT[kinds[i]]:
                choices.append(("r", i))
        if not choices:
            break
        c = draw(st.sampled_from(choices))
        if c[0] == "a":
            seq.append(["assign", next_assign])
            next_assign += 1
        else:
            seq.append(["resolve", c[1], nextf[c[1]]])
            nextf[c[1]] += 1
    case = {"variant": variant, "kinds": kinds, "steps": seq, "drain_after_assign": draw(st.booleans())}
    if variant == "rx" and kinds[0] == "coro" and draw(st.booleans()):
        # the coroutines of some superseded updates fail (whenever they complete) instead of returning
        case["fail"] = sorted(draw(st.sets(st.integers(0, n - 2), max_size=2)))
    elif variant == "rx" and draw(st.booleans()):
        # the root may return to a value it had before (A, B, A, ...): consecutive updates differ, results are judged by value
        vals = []
        for _ in range(n):
            vals.append(draw(st.sampled_from([v for v in (0, 1, 2) if not vals or v != vals[-1]])))
        case["root_vals"] = vals
    return case


def strategy(tier):
    return _case()


async def _drain(k=4):
    for _ in range(k):
        await asyncio.sleep(0)


def _result(kinds, i, j=None):
    k = kinds[i]
    if k == "plain":
        return f"p{i}"
    if k == "sref":
        return f"s{i}"
    if k == "coro":
        return f"r{i}"
    return f"g{i}.{j if j is not None else NFUT[k] - 1}"


def _owner(v):
    """assignment index a recorded value belongs to"""
    if isinstance(v, str) and v[:1] in "prgs" and v[1:2].isdigit():
        return int(v[1:].split(".")[0])
    return None


async def _run_param(case, res):
    kinds = case["kinds"]
    P = type("P", (param.Parameterized,), {"x": param.String(default="init", allow_refs=True)})
    p = P()
    S = type("S", (param.Parameterized,), {"v": param.Parameter(default="s?")})
    seen = []
    p.param.watch(lambda e: seen.append(e.new), "x")
    loop = asyncio.get_running_loop()
    if "corobad" in kinds:
        loop.set_exception_handler(lambda _loop, _ctx: None)     # (the rejected delivery ends its task with an error: expected)
    futs = {}
    for i, k in enumerate(kinds):
        for j in range(NFUT[k]):
            futs[(i, j)] = loop.create_future()

    def make_ref(i):
        k = kinds[i]
        if k == "plain":
            return f"p{i}"
        if k == "sref":
            return S(v=f"s{i}").param.v
        if k == "bad":
            return 5 if i % 2 else S(v=7).param.v        # not a string: a plain value or a reference resolving to one
        if k in ("coro", "corobad"):
            async def coro():
                return await futs[(i, 0)]
            return coro

        async def agen():
            for j in range(NFUT[k]):
                yield await futs[(i, j)]
        return agen

    last_assigned = None
    pending_when_plain = False
    for step in case["steps"]:
        if step[0] == "assign":
            i = step[1]
            if kinds[i] in ("plain", "sref", "bad") and any(not f.done() for (a, _j), f in futs.items() if a < i):
                pending_when_plain = True
            if kinds[i] == "bad":
                try:
                    p.x = make_ref(i)
                except ValueError:
                    pass
                else:
                    res.fail("C10.invalid_assignment_accepted", f"assignment {i} (a non-string) was accepted")
                if case["drain_after_assign"]:
                    await _drain()
                continue
            p.x = make_ref(i)
            last_assigned = i
            if case["drain_after_assign"]:
                await _drain()
        else:
            _r, i, j = step
            if not futs[(i, j)].done():      # cancelling a task also cancels the future it awaits
                futs[(i, j)].set_result(_result(kinds, i, j) if kinds[i] != "corobad" else 5)
            await _drain()
        # a plain value stays until the next assignment
        if last_assigned is not None and kinds[last_assigned] in ("plain", "sref") and p.x != _result(kinds, last_assigned):
            res.fail("C10.plain_value_overwritten", f"after {step!r}: the value {_result(kinds, last_assigned)} assigned last was replaced by "
                                                    f"{p.x!r} (steps {case['steps']!r}, kinds {kinds!r})")
            break
    await _drain(8)
    accepted = [i for i, k in enumerate(kinds) if k != "bad"]
    want = _result(kinds, accepted[-1]) if accepted else "init"
    if accepted and kinds[accepted[-1]] == "corobad":
        want = p.x            # (the most recent assignment delivered nothing acceptable: no claim about the value left)
        res.label("latest_result_rejected")
    if "corobad" in kinds:
        res.label("coroutine_result_rejected")
    if p.x != want and not res.violations:
        res.fail("C10.latest_assignment_lost", f"kinds {kinds!r}, steps {case['steps']!r}, drain_after_assign="
                                               f"{case['drain_after_assign']}: final value {p.x!r}, the most recent assignment gives {want!r}; "
                                               f"values seen {seen!r}")
    hi = -1
    for v in seen:
        o = _owner(v)
        if o is None:
            continue
        if o < hi:
            res.fail("C10.superseded_result_applied", f"kinds {kinds!r}, steps {case['steps']!r}: a result of assignment {o} ({v!r}) was "
                                                      f"applied after a result of assignment {hi}; values seen {seen!r}")
            break
        hi = max(hi, o)
    return pending_when_plain


async def _run_ctx(case, res):
    """`with p.param.update(x=<asynchronous reference>)` left before (or after) the reference delivered: leaving the block
    re-assigns the previous value, which is the latest assignment - the reference's result must never arrive afterwards."""
    loop = asyncio.get_running_loop()
    P = type("P", (param.Parameterized,), {"x": param.String(default="init", allow_refs=True)})
    p = P()
    seen = []
    p.param.watch(lambda e: seen.append(e.new), "x")
    if case["before"] == "plain":
        p.x = "before"
    f1, f2 = loop.create_future(), loop.create_future()

    async def coro():
        return await f1

    async def agen():
        yield await f1
        yield await f2
    prev = p.x
    cm = p.param.update(x=coro if case["kind"] == "coro" else agen)
    cm.__enter__()
    if case["drain_inside"]:
        await _drain()
    if case["deliver_inside"]:
        f1.set_result("inside1")
        await _drain()
    cm.__exit__(None, None, None)
    if p.x != prev:
        res.fail("C10.latest_assignment_lost", f"ctx {case!r}: after leaving `with update(x=<async reference>)` x is {p.x!r}, it was {prev!r} before")
    if case["drain_after"]:
        await _drain()
    for f, name in ((f1, "late1"), (f2, "late2")):
        if not f.done():
            f.set_result(name)
        await _drain()
    await _drain(8)
    if p.x != prev:
        res.fail("C10.superseded_result_applied", f"ctx {case!r}: the reference installed by the `with update(...)` block delivered "
                                                  f"{p.x!r} after the block had restored {prev!r}; values seen {seen!r}")
    return True


def _run_sync(case, res):
    """Synchronous use (no event loop running): every asynchronous reference is run to completion by the library itself."""
    P = type("P", (param.Parameterized,), {"x": param.String(default="init", allow_refs=True)})
    Q = type("Q", (param.Parameterized,), {"y": param.String(default="init", allow_refs=True)})

    def mk(result, hops):
        async def coro():
            for _ in range(hops):
                await asyncio.sleep(0)
            return result
        return coro
    kinds = case["kinds"]
    p = None
    want = "init"
    for i, k in enumerate(kinds):
        val = f"p{i}" if k == "plain" else mk(f"r{i}", case["hops"])
        if i == 0 and case["first_in_ctor"]:
            p = P(x=val)
        else:
            p = p or P()
            p.x = val
        want = f"p{i}" if k == "plain" else f"r{i}"
        if case["unrelated_between"]:
            Q(y=mk("other", case["hops"]))
    for _ in range(case["unrelated_after"]):
        q = Q()
        q.y = mk("other", case["hops"] + 1)
    if case["first_in_ctor"] and len(kinds) == 1:
        # a reference given to the constructor with no loop running is re-scheduled on a loop that is then abandoned: its
        # awaitable never completes, so the statement ("once all have completed") says nothing about it
        res.dontcare += 1
        return
    if p.x != want:
        res.fail("C10.latest_assignment_lost", f"sync {case!r}: final value {p.x!r}, the most recent assignment gives {want!r}")


async def _run_restream(case, res):
    """A watcher of a parameter streamed from an async generator reacts to a streamed item by giving the parameter a new
    asynchronous reference (directly, or by changing what the bound reference depends on): that is the latest assignment."""
    loop = asyncio.get_running_loop()
    S = type("S", (param.Parameterized,), {"v": param.Number(default=0)})
    P = type("P", (param.Parameterized,), {"x": param.Parameter(default="init", allow_refs=True)})
    src, p = S(), P()
    gates = {}
    seen = []

    def gate(name):
        return gates.setdefault(name, loop.create_future())

    async def stream(v=0):
        yield f"g{v}.0"
        await gate(f"g{v}.1")
        yield f"g{v}.1"
        await gate(f"g{v}.2")
        yield f"g{v}.2"

    async def other():
        return await gate("other")
    done = []

    def react(e):
        seen.append(e.new)
        if e.new == "g0.0" and not done:
            done.append(True)
            if case["how"] == "direct_coro":
                p.x = other
            elif case["how"] == "direct_agen":
                async def again():
                    yield await gate("other")
                p.x = again
            else:
                src.v = 1                 # the bound reference depends on src.v: a new stream g1.* replaces g0.*
    p.param.watch(react, "x")
    p.x = param.bind(stream, src.param.v) if case["how"] == "dependency" else stream
    await _drain()
    names = ["g0.1", "g0.2", "other", "g1.1", "g1.2"]
    if case["order"] == "old_last":
        names = ["other", "g1.1", "g1.2", "g0.1", "g0.2"]
    for n_ in names:
        f = gate(n_)
        if not f.done():
            f.set_result("other" if n_ == "other" else None)
        await _drain()
    await _drain(8)
    want = "g1.2" if case["how"] == "dependency" else "other"
    if p.x != want:
        res.fail("C10.latest_assignment_lost", f"restream {case!r}: final value {p.x!r}, the reference installed by the watcher gives "
                                               f"{want!r}; values seen {seen!r}")
    late = [v for v in seen[seen.index("g0.0") + 1:] if isinstance(v, str) and v.startswith("g0.")] if "g0.0" in seen else []
    if late:
        res.fail("C10.superseded_result_applied", f"restream {case!r}: items of the superseded generator were applied after the "
                                                  f"newer reference was installed: {late!r} (seen {seen!r})")
    return False


async def _run_linked(case, res):
    """One source feeds a synchronously linked parameter y and an asynchronously linked parameter x of the same object; a
    watcher of y assigns x (a plain value, which ends the link, or a new coroutine) while the dependency change is being
    synchronised.  That assignment is the latest one."""
    loop = asyncio.get_running_loop()
    futs = []

    async def afn(v):
        f = loop.create_future()
        futs.append((f, f"link{len(futs)}"))
        return await f

    S = type("S", (param.Parameterized,), {"v": param.Number(default=0)})
    T = type("T", (param.Parameterized,), {"y": param.Parameter(default=None, allow_refs=True),
                                           "x": param.Parameter(default="init", allow_refs=True)})
    src = S()
    refs = {"y": param.bind(lambda v: v, src.param.v), "x": param.bind(afn, src.param.v)}
    t = T(**{k: refs[k] for k in case["kw_order"]})
    ofuts = []

    def override(_event):
        if case["override"] == "plain":
            t.x = f"fallback{len(ofuts)}"
            ofuts.append(None)
        else:
            f = loop.create_future()
            name = f"over{len(ofuts)}"
            ofuts.append((f, name))

            async def again():
                return await f
            t.x = again
    t.param.watch(override, "y")
    await _drain()
    for b in range(case["bumps"]):
        src.v = b + 1
        if case["drain_between"]:
            await _drain()
    pend = list(futs) + [o for o in ofuts if o is not None]
    if case["resolve_order"] == "lifo":
        pend.reverse()
    for f, name in pend:
        if not f.done():
            f.set_result(name)
        await _drain()
    await _drain(8)
    want = f"fallback{len(ofuts) - 1}" if case["override"] == "plain" else f"over{len(ofuts) - 1}"
    if t.x != want:
        res.fail("C10.latest_assignment_lost", f"linked object, {case!r}: the watcher of the synchronously linked parameter assigned x "
                                               f"last ({want!r}) but the final value is {t.x!r}")
    return case["override"] == "plain"


async def _run_rx(case, res):
    kinds = case["kinds"]
    loop = asyncio.get_running_loop()
    futs = {}
    for i, k in enumerate(kinds):
        for j in range(NFUT[k]):
            futs[(i, j)] = loop.create_future()
    root = param.rx(-1)
    vals = case.get("root_vals") or list(range(len(kinds)))
    failing = set(case.get("fail") or ()) - {len(kinds) - 1}
    if failing:
        loop.set_exception_handler(lambda _loop, _ctx: None)     # (a failing superseded coroutine ends its task with an error)
        res.label("superseded_coroutine_fails")

    # judged by value: the root holds numbers that compare equal when the value returns (A, B, A -> 1, 2, 1.0) but tell the
    # evaluation which update it belongs to
    rootvals, lookup, seen_cls = [], {}, {}
    for i, k in enumerate(vals):
        if "root_vals" in case:
            occ = seen_cls.get(k, 0)
            seen_cls[k] = occ + 1
            rv = float(k + 1) if occ % 2 else int(k + 1)
        else:
            rv = i
        rootvals.append(rv)
        lookup[(type(rv), rv)] = i

    def idx_of(v):
        return lookup.get((type(v), v), -1)

    if kinds[0] == "coro":
        async def pipefn(v):
            if idx_of(v) < 0:
                return "init"
            return await futs[(idx_of(v), 0)]
    else:
        async def pipefn(v):
            i = idx_of(v)
            if i < 0:
                yield "init"
                return
            for j in range(NFUT[kinds[i]]):
                yield await futs[(i, j)]

    expr = root.rx.pipe(pipefn)
    seen = []
    expr.rx.watch(lambda v: seen.append(v))
    try:
        expr.rx.value
    except Exception:  # noqa: BLE001
        pass
    for step in case["steps"]:
        if step[0] == "assign":
            root.rx.value = rootvals[step[1]]
            try:
                expr.rx.value           # reading is what schedules the coroutine
            except Exception:  # noqa: BLE001
                pass
            if case["drain_after_assign"]:
                await _drain()
        else:
            _r, i, j = step
            if not futs[(i, j)].done():      # cancelling a task also cancels the future it awaits
                if i in failing:
                    futs[(i, j)].set_exception(RuntimeError(f"coroutine of update {i} failed"))
                else:
                    futs[(i, j)].set_result(_result(kinds, i, j))
            await _drain()
    await _drain(8)
    want = _result(kinds, len(kinds) - 1)
    try:
        got = expr.rx.value
    except Exception as e:  # noqa: BLE001
        got = e
    by_value = "root_vals" in case
    if by_value:
        # judged by value: any complete evaluation for the root's current value is a correct final result
        o = _owner(got) if isinstance(got, str) else None
        ok = o is not None and vals[o] == vals[-1] and got == _result(kinds, o)
        if not ok:
            res.fail("C10.rx_latest_lost", f"rx pipe, kinds {kinds!r}, root values {vals!r}, steps {case['steps']!r}, "
                                           f"drain_after_assign={case['drain_after_assign']}: final value {got!r} does not belong to an "
                                           f"evaluation for the current root value {vals[-1]!r}; watcher saw {seen!r}")
        return False
    if got != want:
        res.fail("C10.rx_latest_lost", f"rx pipe, kinds {kinds!r}, steps {case['steps']!r}, drain_after_assign={case['drain_after_assign']}: "
                                       f"final value {got!r}, the most recent root update gives {want!r}; watcher saw {seen!r}")
    hi = -1
    for v in seen:
        o = _owner(v)
        if o is None:
            continue
        if o < hi:
            res.fail("C10.rx_superseded_result_applied", f"rx pipe, kinds {kinds!r}, steps {case['steps']!r}: {v!r} delivered after "
                                                         f"a result of update {hi}; watcher saw {seen!r}")
            break
        hi = max(hi, o)
    return False


def execute(case):
    res = Result()
    from param import _utils
    flags = {}

    async def main():
        if case["variant"] == "param":
            flags["plain_pending"] = await _run_param(case, res)
        elif case["variant"] == "linked":
            flags["plain_pending"] = await _run_linked(case, res)
        elif case["variant"] == "ctx":
            flags["plain_pending"] = await _run_ctx(case, res)
        elif case["variant"] == "restream":
            flags["plain_pending"] = await _run_restream(case, res)
        else:
            flags["plain_pending"] = await _run_rx(case, res)
        await _drain(4)
        left = [t for t in _utils._running_tasks if not t.done()]
        if left:
            res.fail("C10.task_left_pending", f"{len(left)} task(s) created by the library are still pending after everything "
                                              f"completed (kinds {case['kinds']!r}, steps {case['steps']!r})")
            for t in left:
                t.cancel()
            await _drain(2)

    if case["variant"] == "sync":
        import logging
        alog = logging.getLogger("asyncio")
        level = alog.level
        alog.setLevel(logging.CRITICAL)      # the library's throw-away loops report the tasks that die with them: expected noise
        try:
            _run_sync(case, res)
        finally:
            import gc
            _utils._running_tasks.clear()
            gc.collect()
            alog.setLevel(level)
        _utils._running_tasks.clear()
        res.label("variant:sync")
        res.nontrivial = len(case["kinds"]) >= 2
        return res
    asyncio.run(main())
    _utils._running_tasks.clear()
    if case["variant"] in ("linked", "ctx", "restream"):
        res.label("variant:" + case["variant"])
        res.nontrivial = True
        return res
    # completion order vs assignment order
    order = [s[1] for s in case["steps"] if s[0] == "resolve"]
    out_of_order = order != sorted(order)
    resolved_before_later_assign = False
    res.label("variant:" + case["variant"], f"n:{len(case['kinds'])}", "drain" if case["drain_after_assign"] else "back_to_back")
    if out_of_order:
        res.label("completion_order_differs")
    if flags.get("plain_pending"):
        res.label("plain_while_pending")
    res.nontrivial = out_of_order or bool(flags.get("plain_pending")) or resolved_before_later_assign
    return res
