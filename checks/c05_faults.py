"""C05 - failures never corrupt the dispatch state.

Faults are injected at generated/enumerated positions (k-th invocation of a watcher raises, k-th key
of an update is rejected, the body of a context raises after j operations, a constructor keyword is
rejected), at any nesting depth, optionally caught inside a surrounding batch.  Oracle: after every
faulted top-level statement a fixed probe is run on the object and on a *twin* - a freshly built
object with the same values and the same watchers - and the two recorded traces must be equal.
Inside a surrounding batch that caught the fault, later sets must stay silent until the batch exits.
"""
import itertools

from hypothesis import strategies as st

import param
from param.parameterized import batch_call_watchers, discard_events, edit_constant
from vlib.core import Result
from vlib.dispatch import FAULTS, NAMES, Fault, World, pool_value, val_strategy, watcher_spec

ID = "C05"
LEVEL = "fault_enumeration"
RULE = ("fault placements: (site kind: raising watcher on set / on batch flush / on trigger / on update flush; rejected "
        "k-th key of update incl. an Event key; rejected constructor keyword; raising body of batch, discard, edit_constant, "
        "update-context) x position x nesting depth 0-2 x caught-inside-a-surrounding-batch yes/no are enumerated completely "
        "for a fixed 4-watcher configuration; around them Hypothesis generates watcher configurations, surrounding programs "
        "(callbacks may raise a custom exception, ValueError, TypeError or KeyError; watchers of Parameter attributes and assignments to them are included; after a fault caught inside an open edit_constant block a constant must still be assignable there) and sequences of up to three faults. Oracle = the same probe (fresh watchers, same-value set, changing set, batch, "
        "trigger, Event set, update, constant flags) on the faulted object and on a freshly built twin, traces compared; plus "
        "silence inside a surrounding batch after a caught fault. Non-trivial = the fault strikes while an event is queued, "
        "or inside an enclosing context, or during trigger, or with an Event key among the update keys; distinct = case hash. Round-4 additions: a callback failure that is a BaseException, a value rejected AT an Event key, watch() given an unknown name after a valid one, queued watchers that assign without failing before a later watcher fails (enumerated for set / update / trigger x exception class x nesting), and a side scenario in which leaving an update() context over a linked parameter fails while the link is put back.")
ASSUMPTIONS = [
    "twin = new instance of a fresh identical class given the same values, watchers re-registered in the same order",
    "callbacks do not assign, except that a callback scheduled to raise may first assign one other parameter (acyclic); faults are disarmed while probing",
    "which of the remaining watchers of the failing dispatch still run is not claimed (only the state afterwards)",
]
SIZES = {"quick": 900, "thorough": 8000}
EXHAUSTIVE_NOTE = ("one fault x {site kind} x {position} x {nesting: none, batch, batch>batch, discard, updctx, batch>discard} x "
                   "{caught inside the surrounding batch or propagated} under a fixed 4-watcher configuration; plus {exception class: "
                   "custom, ValueError, TypeError, KeyError} x {direct set, direct Event set with an immediate or a queued watcher, "
                   "Parameter-attribute set whose earlier queued watcher assigned} x {no context, batch caught, batch propagated} "
                   "under a 7-watcher configuration")

PN = ["a", "b", "c", "ev"]


class BodyFault(Exception):
    pass


# ---------------------------------------------------------------------------
# generation

def _leaf(fam):
    _val = val_strategy(fam)
    t = st.integers(0, 1)
    n = st.integers(0, 2)
    key = st.one_of(st.tuples(st.just("v"), n, _val), st.tuples(st.just("v"), n, _val),
                    st.tuples(st.just("bad")), st.tuples(st.just("ev")), st.tuples(st.just("numok"), st.integers(0, 9)),
                    st.tuples(st.just("unknown")), st.tuples(st.just("badev")))
    return st.one_of(
        st.tuples(st.just("set"), t, n, _val),
        st.tuples(st.just("set"), t, n, _val),
        st.tuples(st.just("update"), t, st.lists(key, min_size=1, max_size=4)),
        st.tuples(st.just("update"), t, st.lists(key, min_size=1, max_size=4)),
        st.tuples(st.just("trigger"), t, st.lists(st.integers(0, 3), min_size=1, max_size=2, unique=True)),
        st.tuples(st.just("event"), t),
        st.tuples(st.just("ctor"), st.booleans()),
        st.tuples(st.just("slot"), t, st.sampled_from(["bounds", "doc"]), st.integers(0, 3)),
        # update() handed something that is not a mapping, on an instance or on the class
        st.tuples(st.just("bad_update_arg"), st.sampled_from([0, 1, "class"])),
        st.tuples(st.just("bad_trigger"), t, n),
        # watch() given a name that is not a parameter, after a valid one
        st.tuples(st.just("bad_watch"), t),
        st.tuples(st.just("unknown_trigger"), t, n),
    ).map(list)


def _tree(fam):
    def extend(children):
        kids = st.lists(children, min_size=0, max_size=4)
        t = st.integers(0, 1)
        raise_at = st.one_of(st.none(), st.none(), st.integers(0, 3))
        return st.one_of(
            st.tuples(st.just("batch"), t, kids, raise_at, st.booleans()).map(list),
            st.tuples(st.just("batch"), t, kids, raise_at, st.booleans()).map(list),
            st.tuples(st.just("discard"), t, kids, raise_at, st.booleans()).map(list),
            st.tuples(st.just("editconst"), t, kids, raise_at, st.booleans()).map(list),
            st.tuples(st.just("updctx"), t, kids, raise_at, st.booleans(),
                      st.lists(st.tuples(st.integers(0, 2), val_strategy(fam)), min_size=1, max_size=2)).map(list),
        )
    return st.recursive(_leaf(fam), extend, max_leaves=8)


@st.composite
def _case(draw):
    fam = draw(st.integers(0, 4))
    ws = draw(st.lists(watcher_spec(allow_slot=True, allow_class=False, fam=fam), min_size=1, max_size=5))
    for w in ws:
        w["script"] = []
        if w["what"] != "value":
            w["names"] = [4]                    # a watcher of a Parameter attribute of `num` (bounds / doc)
        elif draw(st.integers(0, 3)) == 0:
            w["names"] = sorted(set(w["names"]) | {3})
        # the class of the exception a failing callback raises: param itself raises ValueError / TypeError for rejected values
        w["fault_exc"] = draw(st.sampled_from(["Fault", "Fault", "ValueError", "TypeError", "KeyError", "BaseException"]))
    wfaults = draw(st.lists(st.tuples(st.integers(0, len(ws) - 1), st.integers(1, 3)), max_size=3))
    for wid, _k in wfaults:
        w = ws[wid]
        lo = max(i for i in w["names"] if i <= 2) + 1 if any(i <= 2 for i in w["names"]) else (0 if w["what"] != "value" else 3)
        if lo <= 2 and draw(st.booleans()):
            # a faulting callback may do its work (assign another parameter) before it fails
            w["script"] = [[draw(st.integers(lo, 2)), draw(val_strategy(fam))]]
            w["fault_after_script"] = True
    for w in ws:
        if w["queued"] and w["what"] == "value" and not w["script"] and any(i <= 1 for i in w["names"]) and draw(st.booleans()):
            # a queued watcher that does not fail itself assigns another parameter: its events sit in the queue while the
            # watchers after it run (one of which may fail)
            lo = max(i for i in w["names"] if i <= 2) + 1
            if lo <= 2:
                w["script"] = [[draw(st.integers(lo, 2)), draw(val_strategy(fam))]]
    prog = draw(st.lists(_tree(fam), min_size=1, max_size=5))
    case = {"fam": fam, "watchers": ws, "wfaults": [list(f) for f in wfaults], "prog": prog}
    if draw(st.integers(0, 3)) == 0:
        # a small scenario of its own: leaving `with obj.param.update(...)` fails while a link is being put back
        case["restore_fault"] = {
            "two_links": draw(st.booleans()), "also_plain": draw(st.booleans()), "outer_batch": draw(st.booleans()),
            "onlychanged": draw(st.booleans()), "queued": draw(st.booleans()),
            "bad_source_value": draw(st.sampled_from([50, "not a number"])),
        }
    return case


def strategy(tier):
    return _case()


_FIXED_WS = [
    {"target": 0, "names": [0, 1], "what": "value", "onlychanged": True, "queued": False, "precedence": 0, "mode": "args", "script": []},
    {"target": 0, "names": [0, 3], "what": "value", "onlychanged": False, "queued": True, "precedence": 1, "mode": "args", "script": []},
    {"target": 0, "names": [2], "what": "value", "onlychanged": False, "queued": False, "precedence": 0, "mode": "kwargs", "script": []},
    {"target": 0, "names": [1], "what": "value", "onlychanged": False, "queued": False, "precedence": 2, "mode": "args", "script": []},
]


def enumerate_cases(tier):
    """The finite skeleton: one fault, every site kind x position x nesting x caught/propagated."""
    def wrap(node, nesting, catch):
        for kind in reversed(nesting):
            if kind == "updctx":
                node = ["updctx", 0, [["set", 0, 1, 4], node, ["set", 0, 2, 3]], None, catch, [[1, 7]]]
            else:
                node = [kind, 0, [["set", 0, 1, 4], node, ["set", 0, 2, 3]], None, catch]
        return node

    nestings = [[], ["batch"], ["batch", "batch"], ["discard"], ["updctx"], ["batch", "discard"], ["editconst"],
                ["batch", "updctx"]]
    sites = []
    for k in (1, 2):
        sites.append(("watcher_on_set", [["set", 0, 0, 1], ["set", 0, 0, 4]], [[0, k]]))
        sites.append(("queued_watcher_on_set", [["set", 0, 0, 1], ["set", 0, 0, 4]], [[1, k]]))
        sites.append(("watcher_on_trigger", [["trigger", 0, [0]], ["trigger", 0, [0, 3]]], [[1, k]]))
        sites.append(("watcher_on_update", [["update", 0, [["v", 0, 1], ["v", 1, 4]]], ["update", 0, [["v", 0, 4], ["ev"]]]], [[1, k]]))
    for pos in (0, 1, 2):
        keys = [["v", 0, 1], ["v", 1, 4], ["ev"]]
        keys.insert(pos, ["bad"])
        sites.append(("rejected_key", [["update", 0, keys]], []))
    sites.append(("unknown_key", [["update", 0, [["v", 0, 1], ["ev"], ["unknown"]]]], []))
    sites.append(("unknown_key_first", [["update", 0, [["unknown"], ["ev"], ["v", 0, 1]]]], []))
    sites.append(("rejected_trigger", [["bad_trigger", 0, 0]], []))
    sites.append(("unknown_trigger", [["unknown_trigger", 0, 0]], []))
    sites.append(("ctor", [["ctor", True]], []))
    for bk in ("batch", "discard", "editconst", "updctx"):
        for j in (0, 1, 2):
            body = [["set", 0, 0, 1], ["set", 0, 1, 4]]
            node = [bk, 0, body, j, False] + ([[[2, 7]]] if bk == "updctx" else [])
            sites.append(("body_" + bk, [node], []))
    for (name, nodes, wf), nesting, catch in itertools.product(sites, nestings, (False, True)):
        prog = [["set", 0, 0, 0]] + [wrap(n, nesting, catch) for n in nodes] + [["set", 0, 2, 1]]
        yield {"fam": 0, "watchers": _FIXED_WS, "wfaults": wf, "prog": prog, "site": name}
    # the class of the exception the callback raises (param's own rejections are ValueError / TypeError), on a direct
    # assignment, a direct Event set and a Parameter-attribute set, with a watcher of the Event and one of num.bounds
    ws_ev = _FIXED_WS + [
        {"target": 0, "names": [3], "what": "value", "onlychanged": False, "queued": False, "precedence": 1, "mode": "args", "script": []},
        {"target": 0, "names": [4], "what": "bounds", "onlychanged": False, "queued": True, "precedence": 0, "mode": "args",
         "script": [[1, 2]], "fault_after_script": False},
        {"target": 0, "names": [4], "what": "bounds", "onlychanged": False, "queued": False, "precedence": 0, "mode": "args", "script": []},
    ]
    # a queued watcher of a assigns b; a later watcher of a raises
    ws_q = [
        {"target": 0, "names": [0], "what": "value", "onlychanged": False, "queued": True, "precedence": 0, "mode": "args", "script": [[1, 2]]},
        {"target": 0, "names": [0], "what": "value", "onlychanged": False, "queued": False, "precedence": 1, "mode": "args", "script": []},
        {"target": 0, "names": [1, 2], "what": "value", "onlychanged": False, "queued": False, "precedence": 0, "mode": "args", "script": []},
    ]
    for exc in ("Fault", "ValueError", "TypeError", "KeyError", "BaseException"):
        for k in (1, 2):
            for nodes in ([["set", 0, 0, 1], ["set", 0, 0, 4]], [["update", 0, [["v", 0, 1]]], ["update", 0, [["v", 0, 4], ["v", 2, 1]]]],
                          [["trigger", 0, [0]], ["trigger", 0, [0, 2]]]):
                for nesting, catch in (([], False), (["batch"], True), (["batch"], False)):
                    prog = [["set", 0, 0, 0]] + [wrap(n, nesting, catch) for n in nodes] + [["set", 0, 2, 1]]
                    yield {"fam": 0, "watchers": [dict(w, fault_exc=exc) for w in ws_q], "wfaults": [[1, k]], "prog": prog,
                           "site": "watcher_after_queued_assigning_one:" + nodes[0][0] + ":" + exc}
    for exc in ("Fault", "ValueError", "TypeError", "KeyError", "BaseException"):
        ws = [dict(w, fault_exc=exc) for w in ws_ev]
        for k in (1, 2):
            for name, nodes, wf in (("watcher_on_set", [["set", 0, 0, 1], ["set", 0, 0, 4]], [[0, k]]),
                                    ("watcher_on_event_set", [["event", 0], ["event", 0]], [[4, k]]),
                                    ("queued_watcher_on_event_set", [["event", 0], ["event", 0]], [[1, k]]),
                                    ("slot_watcher_after_queued_assigning_one", [["slot", 0, "bounds", 1], ["slot", 0, "bounds", 2]], [[6, k]])):
                for nesting, catch in (([], False), (["batch"], True), (["batch"], False)):
                    prog = [["set", 0, 0, 0]] + [wrap(n, nesting, catch) for n in nodes] + [["set", 0, 2, 1]]
                    yield {"fam": 0, "watchers": ws, "wfaults": wf, "prog": prog, "site": name + ":" + exc}


# ---------------------------------------------------------------------------
# execution

class _W(World):
    def __init__(self, specs):
        super().__init__(specs, with_event=True, pnames=["a", "b", "c", "ev", "num"])

    def snapshot(self, tidx):
        t = self.targets[tidx]
        return tuple(getattr(t, n) for n in NAMES) + (t.ev, t.num)


def _twin_of(world, specs):
    tw = _W([])
    tw.specs = specs
    tw.handles = [None] * len(specs)
    tw.script_vals = world.script_vals
    for i in (0, 1):
        src = world.targets[i]
        vals = {n: getattr(src, n) for n in NAMES}
        vals["num"] = src.num
        tw.targets[i] = tw.W(**vals)
        if "num" in src._param__private.params:       # the object has its own Parameter `num`: same attribute values
            tw.targets[i].param.num.bounds = src.param.num.bounds
            tw.targets[i].param.num.doc = src.param.num.doc
    tw.o1, tw.o2 = tw.targets[0], tw.targets[1]
    for wid in range(len(specs)):
        tw.register(wid)
    return tw


_PROBE_VALS = [101, 102, 103, 104, 105, 106]


def _probe(world, t):
    """The fixed probe; returns a comparable transcript."""
    o = world.targets[t]
    out = []
    log = []

    def rec(tag):
        def cb(*evs):
            log.append((tag, [(e.name, e.old, e.new, e.type) for e in evs], world.snapshot(t)))
        return cb

    p1 = o.param.watch(rec("P1"), ["a", "b"])
    p2 = o.param.watch(rec("P2"), ["a"], onlychanged=False)
    p3 = o.param.watch(rec("P3"), ["ev"])
    world.trace = []

    def step(name, fn):
        try:
            fn()
            err = None
        except Exception as e:  # noqa: BLE001
            err = type(e).__name__
        out.append((name, err, list(world.trace), list(log), world.snapshot(t)))
        del world.trace[:]
        del log[:]

    cur = o.a
    step("same_value_set", lambda: setattr(o, "a", cur))
    step("changing_set", lambda: setattr(o, "a", _PROBE_VALS[0]))

    def batch():
        with batch_call_watchers(o):
            o.a = _PROBE_VALS[1]
            o.b = _PROBE_VALS[2]
            out.append(("inside_batch", None, list(world.trace), list(log), world.snapshot(t)))
    step("batch", batch)
    step("trigger", lambda: o.param.trigger("a"))
    step("event_set", lambda: setattr(o, "ev", True))
    step("event_after", lambda: None)
    step("update", lambda: o.param.update(a=_PROBE_VALS[3], b=_PROBE_VALS[4]))
    step("update_event", lambda: o.param.update(ev=True, c=_PROBE_VALS[5]))
    step("event_after2", lambda: None)
    flags = (type(o).param["name"].constant, o.param["name"].constant)
    try:
        o.name = "zz"
        flags += ("name-assignable",)
    except TypeError:
        flags += ("name-constant",)
    out.append(("flags", flags))
    for h in (p1, p2, p3):
        o.param.unwatch(h)
    return out


def _same_transcript(a, b):
    def eqv(x, y):
        if isinstance(x, (tuple, list)) and isinstance(y, (tuple, list)):
            return len(x) == len(y) and all(eqv(p, q) for p, q in zip(x, y))
        if x is y:
            return True
        if isinstance(x, float) and isinstance(y, float) and x != x and y != y:
            return True
        try:
            return type(x) is type(y) and bool(x == y)
        except Exception:  # noqa: BLE001
            return False
    return eqv(a, b)


def _first_diff(a, b):
    for x, y in zip(a, b):
        if not _same_transcript(x, y):
            return f"\n     faulted: {x!r}\n     twin   : {y!r}"
    return f" lengths {len(a)} vs {len(b)}"


def execute(case):
    res = Result()
    specs = case["watchers"]
    world = _W(specs)
    for wid, k in case["wfaults"]:
        if wid < len(specs):
            world.faults.setdefault(wid, set()).add(k)
    depth = [0, 0]            # open batch/discard contexts per target
    discarding = [0, 0]
    any_ctx = [0]
    silent = []               # (target, trace position after the in-batch probe set)
    state = {"faulted": False, "labels": set(), "inbatch_val": {}}
    counter = itertools.count(1000)

    def note_fault(kind):
        state["faulted"] = True
        state["labels"].add("fault:" + kind)
        if any_ctx[0]:
            state["labels"].add("fault_inside_context")
        for t in (0, 1):
            p = world.targets[t].param
            if p._events:
                state["labels"].add("fault_while_event_queued")

    def inbatch_probe(t):
        """after a fault caught inside a batch on t: a later set must stay silent until the batch exits"""
        v = next(counter)
        pos = len(world.trace)
        world.trace.append(("probe", t, v))
        world.targets[t].c = v
        news = [e for e in world.trace[pos:] if e[0] == "enter" and specs[e[1]]["target"] == t]
        if news:
            res.fail("C05.not_deferred_after_fault", f"after a fault caught inside an open batch on t{t}, a later set was "
                                                    f"dispatched immediately: {news!r}")
        if not discarding[t]:
            state["inbatch_val"][t] = v
        state["labels"].add("probe_inside_surrounding_batch")

    def run(node):
        kind = node[0]
        if kind == "set":
            t = node[1]
            if not discarding[t]:
                world.trace.append(("applied", t, NAMES[node[2]], None))
            try:
                world.assign(t, NAMES[node[2]], pool_value(node[3]))
            except FAULTS:
                note_fault("watcher_on_set")
                raise
        elif kind == "update":
            t = node[1]
            kv = {}
            bad = badev = False
            for key in node[2]:
                if key[0] == "v":
                    kv[NAMES[key[1]]] = pool_value(key[2])
                elif key[0] == "bad":
                    kv["num"] = 99          # outside the hard bounds (0, 10): rejected
                    bad = True
                elif key[0] == "numok":
                    kv["num"] = key[1]
                elif key[0] == "unknown":
                    kv["nosuchparameter"] = 1     # not a parameter: ValueError
                    bad = True
                elif key[0] == "badev":
                    kv["ev"] = "yes"              # an Event takes True / False only: the rejection happens AT the Event key
                    bad = True
                    badev = True
                elif kv.get("ev") != "yes":
                    kv["ev"] = True
            if "num" in kv and bad and "nosuchparameter" not in kv and not badev:
                kv["num"] = 99
            if bad and "ev" in kv:
                state["labels"].add("event_key_in_failing_update")
            pos0 = len(world.trace)
            try:
                world.targets[t].param.update(**kv)
            except FAULTS:
                note_fault("watcher_on_update")
                raise
            except ValueError:
                note_fault("rejected_key")
                badkeys = [k_ for k_ in kv if k_ == "nosuchparameter" or (k_ == "num" and kv[k_] == 99) or (k_ == "ev" and kv[k_] == "yes")]
                badkey = badkeys[0]
                if badev:
                    state["labels"].add("rejected_at_event_key")
                applied = list(kv)[:list(kv).index(badkey)]
                if applied:
                    state["labels"].add("rejected_after_applied_keys")
                if "nosuchparameter" in kv:
                    applied = []          # an unknown name may be refused before anything is applied: no claim
                if not discarding[t]:
                    world.trace[pos0:pos0] = [("applied", t, k_, kv[k_]) for k_ in applied if k_ in NAMES]
                raise
            if not discarding[t]:
                world.trace[pos0:pos0] = [("applied", t, k_, kv[k_]) for k_ in kv if k_ in NAMES]
        elif kind == "trigger":
            t = node[1]
            try:
                world.targets[t].param.trigger(*[PN[i] for i in node[2]])
            except FAULTS:
                note_fault("watcher_on_trigger")
                state["labels"].add("fault_during_trigger")
                raise
        elif kind == "bad_trigger":
            # trigger re-assigns the current values: make the current value of `num` invalid (bounds tightened after
            # it was set) so that param.trigger('num', <name>) is rejected half-way
            t = node[1]
            o = world.targets[t]
            saved = o.param.num.bounds
            try:
                o.param.num.bounds = (5, 10)      # num is 1 (a watcher of the bounds may fail right here)
                o.param.trigger(NAMES[node[2]], "num")
            except FAULTS:
                note_fault("watcher_on_slot_set")
                raise
            except ValueError:
                note_fault("rejected_trigger")
                state["labels"].add("fault_during_trigger")
                raise
            finally:
                try:
                    o.param.num.bounds = saved
                except FAULTS:
                    pass                          # (the bounds are back: the assignment precedes the announcement)
        elif kind == "unknown_trigger":
            t = node[1]
            try:
                world.targets[t].param.trigger(NAMES[node[2]], "nosuchparameter")
            except (KeyError, ValueError):
                note_fault("unknown_trigger")
                state["labels"].add("fault_during_trigger")
                raise ValueError("unknown name given to trigger")
        elif kind == "event":
            t = node[1]
            try:
                world.targets[t].ev = True
            except FAULTS:
                note_fault("watcher_on_event")
                raise
        elif kind == "bad_update_arg":
            tgt = world.W if node[1] == "class" else world.targets[node[1]]
            try:
                tgt.param.update(5)
            except TypeError:
                note_fault("update_argument_not_a_mapping")
                if node[1] == "class":
                    # the class is not one of the probed objects: check it right here
                    seen_cls = []
                    h = world.W.param.watch(lambda *e: seen_cls.append(e[0].new), "c", onlychanged=False)
                    old_c = world.W.c
                    world.W.c = old_c
                    world.W.param.unwatch(h)
                    if not seen_cls or world.W.param._BATCH_WATCH or world.W.param._events:
                        res.fail("C05.state_left", f"after update(5) failed on the class, a class-level assignment is no longer "
                                                   f"dispatched immediately (batch flag {world.W.param._BATCH_WATCH})")
                raise
        elif kind == "bad_watch":
            t = node[1]

            def stray(*events):
                world.trace.append(("stray_watcher", [e.name for e in events]))
            try:
                world.targets[t].param.watch(stray, ["a", "nosuchparameter"], onlychanged=False)
            except ValueError:
                note_fault("watch_unknown_name")
                raise
        elif kind == "slot":
            t = node[1]
            newv = (0, 10 + node[3]) if node[2] == "bounds" else f"d{node[3]}"
            try:
                setattr(world.targets[t].param.num, node[2], newv)
            except FAULTS:
                note_fault("watcher_on_slot_set")
                raise
        elif kind == "ctor":
            if node[1]:
                try:
                    world.W(a=1, num=99, b=2)
                except ValueError:
                    note_fault("ctor")
                    raise
            else:
                world.W(a=1, b=2)
        else:
            t = node[1]
            obj = world.targets[t]
            kids, raise_at, catch = node[2], node[3], node[4]
            if kind == "batch":
                cm = batch_call_watchers(obj)
            elif kind == "discard":
                cm = discard_events(obj)
            elif kind == "editconst":
                cm = edit_constant(obj)
            else:
                kv = {NAMES[n]: pool_value(v) for n, v in node[5]}
                try:
                    cm = obj.param.update(**kv)
                except FAULTS:
                    note_fault("watcher_on_update")
                    raise
            batching = kind in ("batch", "discard")
            try:
                with cm:
                    any_ctx[0] += 1
                    if batching:
                        depth[t] += 1
                        if kind == "discard":
                            discarding[t] += 1
                    try:
                        for j, ch in enumerate(kids):
                            if raise_at is not None and j == raise_at:
                                note_fault("body_" + kind)
                                raise BodyFault(kind)
                            if catch:
                                try:
                                    run(ch)
                                except FAULTS + (BodyFault, ValueError, TypeError):
                                    for tt in (0, 1):
                                        if depth[tt]:
                                            inbatch_probe(tt)
                                    if kind == "editconst":
                                        # the fault was caught inside this still open edit_constant block: constants stay editable
                                        try:
                                            obj.name = f"renamed{next(counter)}"
                                        except TypeError as e:
                                            res.fail("C05.edit_constant_closed_by_inner_fault",
                                                     f"after a fault caught inside an open edit_constant block on t{t}, a constant "
                                                     f"can no longer be assigned in that block: {e}")
                                        state["labels"].add("constant_probe_inside_open_edit_constant")
                            else:
                                run(ch)
                        if raise_at is not None and raise_at >= len(kids):
                            note_fault("body_" + kind)
                            raise BodyFault(kind)
                    finally:
                        any_ctx[0] -= 1
                        if batching:
                            depth[t] -= 1
                            if kind == "discard":
                                discarding[t] -= 1
                            if depth[t] == 0:
                                world.trace.append(("closed", t))
            except FAULTS:
                if not state["faulted"]:
                    note_fault("watcher_on_flush")
                state["labels"].add("fault:watcher_on_flush_or_exit")
                raise

    nfaults = 0
    for si, node in enumerate(case["prog"]):
        state["faulted"] = False
        state["inbatch_val"] = {}
        world.trace = []
        try:
            run(node)
        except FAULTS + (BodyFault, ValueError, TypeError):
            state["faulted"] = True
        tag = f"statement {si} {node!r}"
        # silence between an in-batch probe and the closing of the outermost batch on that target
        open_probe = {}
        for e in world.trace:
            if e[0] == "probe":
                open_probe[e[1]] = e[2]
            elif e[0] == "closed":
                open_probe.pop(e[1], None)
            elif e[0] == "enter" and specs[e[1]]["target"] in open_probe:
                res.fail("C05.not_deferred_after_fault", f"{tag}: watcher w{e[1]} ran inside the still open surrounding batch "
                                                        f"after a caught fault: {e!r}")
                break
        # every change applied outside discard_events is announced to each unfiltered watcher by the end of the statement
        # (also when a later key / trigger / body failed) - unless a *watcher* raised, which aborts the deliveries
        watcher_fault = any(e[0] == "raise" for e in world.trace)
        if not watcher_fault:
            for pos, e in enumerate(world.trace):
                if e[0] != "applied":
                    continue
                _a, t_, n_, _v = e
                for wid, sp in enumerate(specs):
                    if sp["target"] != t_ or sp["onlychanged"] or sp["what"] != "value" or n_ not in [PN[i] for i in sp["names"]]:
                        continue
                    if not any(x[0] == "enter" and x[1] == wid and any(r[0] == n_ for r in x[2]) for x in world.trace[pos:]):
                        res.fail("C05.applied_change_not_announced", f"{tag}: the change of t{t_}.{n_} was applied but never "
                                                                     f"announced to unfiltered watcher w{wid} by the end of the statement")
                        break
        if not state["faulted"]:
            continue
        nfaults += 1
        for t in (0, 1):
            p = world.targets[t].param
            if p._BATCH_WATCH or p._TRIGGER or p._events or p._state_watchers:
                res.fail("C05.state_left", f"{tag}: after the failed statement t{t} has batch={p._BATCH_WATCH} "
                                           f"trigger={p._TRIGGER} queued events={[(e.name, e.new) for e in p._events]!r}")
        # differential probe against a freshly built twin
        saved_faults, world.faults = world.faults, {}
        twin = _twin_of(world, specs)
        for t in (0, 1):
            got = _probe(world, t)
            want = _probe(twin, t)
            if not _same_transcript(got, want):
                res.fail("C05.probe_differs_from_twin", f"{tag}: probe on t{t} differs from a freshly built object with the "
                                                        f"same values and watchers:{_first_diff(got, want)}")
        world.faults = saved_faults
        # a rejected constructor must not disturb the class either: a fresh instance behaves like the twin's
        if any(l == "fault:ctor" for l in state["labels"]):
            w3 = _W([])
            w3.targets[0] = world.W()          # a new instance of the class whose constructor call was rejected
            t3 = _W([])                        # ... against an instance of a freshly made class (no user watchers on either)
            if not _same_transcript(_probe_light(w3), _probe_light(t3)):
                res.fail("C05.ctor_fault_corrupts_class", f"{tag}: a new instance made after the rejected constructor call "
                                                          f"behaves differently from one of a fresh class")
        if res.violations:
            break
    if case.get("restore_fault") and not res.violations:
        _restore_fault_scenario(res, case["restore_fault"])
    for l in state["labels"]:
        res.label(l)
    if case.get("site"):
        res.label("site:" + case["site"])
    res.nontrivial = bool(state["labels"] & {"fault_inside_context", "fault_while_event_queued", "fault_during_trigger",
                                             "event_key_in_failing_update"}) and nfaults > 0
    return res


def _restore_fault_scenario(res, c):
    """x follows a source; `with t.param.update(x=7)` suspends the link; the source moves to a value x rejects; leaving the
    block fails while the reference is put back.  Afterwards the object dispatches like a fresh one with the same values."""
    import contextlib
    import param
    Src = type("Src", (param.Parameterized,), {"y": param.Parameter(1)})
    T = type("T", (param.Parameterized,), {"x": param.Number(0, bounds=(0, 10), allow_refs=True), "z": param.Number(0),
                                           "u": param.Parameter(0, allow_refs=True)})

    def watch(o):
        log = []
        o.param.watch(lambda *evs: log.append([(e.name, e.old, e.new, e.type) for e in evs]), ["x", "z", "u"],
                      onlychanged=c["onlychanged"], queued=c["queued"])
        return log

    def later(o):
        o.z = 3
        o.x = 4
        with batch_call_watchers(o):
            o.z = 5
            o.x = 6
            o.u = 8
        o.param.trigger("z")
        o.param.update(x=2, z=1)

    src = Src()
    faulty = T(x=src.param.y, **({"u": src.param.y} if c["two_links"] else {}))
    flog = watch(faulty)
    upd = {"x": 7}
    if c["also_plain"]:
        upd["z"] = 2
    if c["two_links"]:
        upd["u"] = 9
    try:
        with (batch_call_watchers(faulty) if c["outer_batch"] else contextlib.nullcontext()):
            with faulty.param.update(**upd):
                src.y = c["bad_source_value"]
    except ValueError:
        res.label("restore_fault:exit_raised")
    else:
        res.fail("C05.harness", f"restore_fault {c!r}: leaving the context did not raise")
        return
    p = faulty.param
    if p._BATCH_WATCH or p._events or p._state_watchers or p._TRIGGER:
        res.fail("C05.state_left", f"restore_fault {c!r}: after the failed exit of the update() context batch={p._BATCH_WATCH} "
                                   f"queued events={[(e.name, e.new) for e in p._events]!r}")
    del flog[:]
    fresh = T(x=faulty.x, z=faulty.z, u=faulty.u)
    log = watch(fresh)
    later(faulty)
    later(fresh)
    if flog != log:
        res.fail("C05.probe_differs_from_twin", f"restore_fault {c!r}: after the failed exit the object dispatches differently from "
                                                f"a fresh one with the same values:\n     faulted: {flog!r}\n     twin   : {log!r}")


def _probe_light(world):
    o = world.targets[0]
    log = []
    h = o.param.watch(lambda *e: log.append([(x.name, x.new, x.type) for x in e]), ["a", "b", "ev"], onlychanged=False)
    o.a = 5
    with batch_call_watchers(o):
        o.a = 6
        o.b = 7
        n_inside = len(log)
    o.ev = True
    o.param.unwatch(h)
    return (log, n_inside, o.ev)
