"""Result / Violation records and small helpers shared by the checks."""
import datetime as dt
import math


class Violation:
    __slots__ = ("clause", "detail")

    def __init__(self, clause, detail=""):
        self.clause = clause
        self.detail = detail

    def __repr__(self):
        return f"Violation({self.clause!r}, {self.detail!r})"


class Result:
    def __init__(self):
        self.violations = []
        self.labels = []
        self.nontrivial = False
        self.dontcare = 0

    def fail(self, clause, detail=""):
        self.violations.append(Violation(clause, str(detail)[:2000]))

    def label(self, *names):
        for n in names:
            if n not in self.labels:
                self.labels.append(n)


# ---------------------------------------------------------------------------
# JSON-serialisable encoding of the Python values used in cases.
#   ["i", 5] int   ["f", "nan"|"inf"|"-inf"|repr] float   ["b", true] bool   ["n"] None
#   ["s", "txt"] str   ["y", "hex"] bytes   ["l", [...]] list   ["t", [...]] tuple
#   ["d", [[k, v], ...]] dict   ["D", [y,m,d]] date   ["T", [y,m,d,H,M,S,us]] datetime
#   ["F", [num, den]] Fraction   ["M", "text"] Decimal   ["o", k] k-th fresh opaque object
#   ["S", [...]] set   ["c", re, im] complex

class Opaque:
    """An object with identity equality only."""
    __slots__ = ("k",)

    def __init__(self, k):
        self.k = k

    def __repr__(self):
        return f"Opaque({self.k})"


def dec(e, opaque=None):
    t = e[0]
    if t == "i":
        return int(e[1])
    if t == "f":
        return float(e[1])
    if t == "b":
        return bool(e[1])
    if t == "n":
        return None
    if t == "s":
        return e[1]
    if t == "y":
        return bytes.fromhex(e[1])
    if t == "l":
        return [dec(x, opaque) for x in e[1]]
    if t == "t":
        return tuple(dec(x, opaque) for x in e[1])
    if t == "S":
        return set(dec(x, opaque) for x in e[1])
    if t == "d":
        return {dec(k, opaque): dec(v, opaque) for k, v in e[1]}
    if t == "D":
        return dt.date(*e[1])
    if t == "T":
        return dt.datetime(*e[1])
    if t == "F":
        from fractions import Fraction
        return Fraction(int(e[1][0]), int(e[1][1]))
    if t == "M":
        from decimal import Decimal
        return Decimal(e[1])
    if t == "c":
        return complex(float(e[1]), float(e[2]))
    if t == "o":
        if opaque is None:
            return Opaque(e[1])
        return opaque.setdefault(e[1], Opaque(e[1]))
    raise ValueError(f"bad encoded value {e!r}")


def enc(v):
    from fractions import Fraction
    from decimal import Decimal
    if v is None:
        return ["n"]
    if isinstance(v, bool):
        return ["b", v]
    if isinstance(v, int):
        return ["i", v]
    if isinstance(v, float):
        return ["f", repr(v)]
    if isinstance(v, str):
        return ["s", v]
    if isinstance(v, bytes):
        return ["y", v.hex()]
    if isinstance(v, list):
        return ["l", [enc(x) for x in v]]
    if isinstance(v, tuple):
        return ["t", [enc(x) for x in v]]
    if isinstance(v, (set, frozenset)):
        return ["S", [enc(x) for x in sorted(v, key=repr)]]
    if isinstance(v, dict):
        return ["d", [[enc(k), enc(x)] for k, x in v.items()]]
    if isinstance(v, dt.datetime):
        return ["T", [v.year, v.month, v.day, v.hour, v.minute, v.second, v.microsecond]]
    if isinstance(v, dt.date):
        return ["D", [v.year, v.month, v.day]]
    if isinstance(v, Fraction):
        return ["F", [v.numerator, v.denominator]]
    if isinstance(v, Decimal):
        return ["M", str(v)]
    if isinstance(v, complex):
        return ["c", repr(v.real), repr(v.imag)]
    if isinstance(v, Opaque):
        return ["o", v.k]
    raise ValueError(f"cannot encode {v!r}")


def model_equal(a, b):
    """Equality as the property states it for changes-only filtering: Python == on numbers,
    strings, None, dates and (same-type) containers of these. Returns True / False / None
    (None = 'not known equal', no claim)."""
    simple = (int, float, complex, str, bytes, type(None), dt.date, bool)
    from fractions import Fraction
    from decimal import Decimal
    simple = simple + (Fraction, Decimal)
    if isinstance(a, simple) and isinstance(b, simple):
        try:
            return bool(a == b)
        except Exception:  # noqa: BLE001
            return None
    if isinstance(a, (list, tuple)) and type(a) is type(b):
        if len(a) != len(b):
            return False
        out = True
        for x, y in zip(a, b):
            if isinstance(x, float) and isinstance(y, float) and x != x and y != y:
                out = None      # NaN nested in a container: Python's == depends on identity; no claim
                continue
            r = model_equal(x, y)
            if r is False:
                return False
            if r is None:
                out = None
        return out
    if isinstance(a, dict) and isinstance(b, dict):
        if type(a) is not type(b):
            return None
        if a.keys() != b.keys():
            return False
        out = True
        for k in a:
            r = model_equal(a[k], b[k])
            if r is False:
                return False
            if r is None:
                out = None
        return out
    if a is b:
        return None
    return None


def same_value(a, b):
    """Structural equality with exact types, NaN equal to NaN (used by round-trip oracles)."""
    if type(a) is not type(b):
        return False
    if isinstance(a, float):
        if math.isnan(a) and math.isnan(b):
            return True
        return a == b and math.copysign(1, a) == math.copysign(1, b)
    if isinstance(a, (list, tuple)):
        return len(a) == len(b) and all(same_value(x, y) for x, y in zip(a, b))
    if isinstance(a, dict):
        return (len(a) == len(b) and all(k in b for k in a)
                and all(same_value(a[k], b[k]) for k in a))
    if isinstance(a, (set, frozenset)):
        return a == b
    return a == b
