"""Shared world for the dispatch properties (C03, C04, C05): a fresh class W with parameters a, b, c
(accept anything), num (Number with bounds, for slot watchers) and ev (Event); two instances and the
class itself as dispatch targets; recording callbacks with scripted (acyclic) assignments."""
import datetime as dt
from fractions import Fraction

from hypothesis import strategies as st

import param
from vlib.core import model_equal

NAMES = ["a", "b", "c"]

# equality-trap pool, grouped in families so that consecutive assignments often meet values that are
# equal-but-not-identical or differ subtly; every decode creates fresh objects
FAMILIES = [
    # numbers
    [lambda: 0, lambda: 1, lambda: True, lambda: 1.0, lambda: 2, lambda: float("nan"), lambda: Fraction(1, 1),
     lambda: 3, lambda: False, lambda: 0.0],
    # strings / None / bytes
    [lambda: "a", lambda: "b", lambda: "", lambda: None, lambda: b"a", lambda: "a" * 1],
    # sequences
    [lambda: [1], lambda: [1.0], lambda: (1,), lambda: [1, [2]], lambda: [], lambda: [None], lambda: [1, None],
     lambda: (1, 2), lambda: [1, 2]],
    # mappings
    [lambda: {"k": 1}, lambda: {"k": 1.0}, lambda: {"k": 1, "j": 2}, lambda: {"j": 2, "k": 1},
     lambda: {"k": None, "j": 2}, lambda: {"m": 7, "j": 2}, lambda: {"k": None}, lambda: {"m": None},
     lambda: {"m": 1}, lambda: {}, lambda: {"k": [1]}, lambda: {"k": [1.0]}],
    # dates
    [lambda: dt.date(2020, 1, 1), lambda: dt.datetime(2020, 1, 1), lambda: dt.date(2020, 1, 2),
     lambda: dt.datetime(2020, 1, 1, 0, 0, 0, 1)],
]
POOL = [f for fam in FAMILIES for f in fam]
NPOOL = len(POOL)
_FAM_RANGES = []
_k = 0
for _fam in FAMILIES:
    _FAM_RANGES.append((_k, _k + len(_fam) - 1))
    _k += len(_fam)


def pool_value(i):
    return POOL[i % NPOOL]()


def val_strategy(fam):
    """Value indices, 2/3 of them from the case's preferred family."""
    lo, hi = _FAM_RANGES[fam % len(FAMILIES)]
    return st.one_of(st.integers(lo, hi), st.integers(lo, hi), st.integers(0, NPOOL - 1))


def equal(a, b):
    """True/False per the statement's equality; the pool contains no value for which it is unknown
    except nested NaN (none in the pool)."""
    r = model_equal(a, b)
    if r is None:
        try:
            if not (a == b):
                return False      # values of unrelated types / unequal opaque values: certainly a change
        except Exception:  # noqa: BLE001
            pass
        return None
    return r


# ---------------------------------------------------------------------------
# strategies

@st.composite
def watcher_spec(draw, allow_queued=True, allow_slot=True, allow_class=True, multi=True, fam=0):
    _val = val_strategy(fam)
    what = "value"
    if allow_slot and draw(st.integers(0, 5)) == 0:
        what = draw(st.sampled_from(["bounds", "doc"]))
    target = draw(st.integers(0, 2 if allow_class else 1))
    if what == "value":
        if multi:
            names = sorted(draw(st.sets(st.integers(0, 2), min_size=1, max_size=3)))
        else:
            names = [draw(st.integers(0, 2))]
        lo = max(names) + 1
        script = draw(st.lists(st.tuples(st.integers(lo, 2), _val), max_size=2)) if lo <= 2 else []
        prec = draw(st.integers(0, 2))
    else:
        names = [3]     # 'num'
        script = draw(st.lists(st.tuples(st.integers(0, 2), _val), max_size=1))
        prec = 0
    return {
        "target": target, "names": names, "what": what,
        "onlychanged": draw(st.booleans()),
        "queued": draw(st.booleans()) if allow_queued else False,
        "precedence": prec,
        "mode": draw(st.sampled_from(["args", "args", "kwargs"])) if what == "value" else "args",
        "script": [list(s) for s in script],
    }


PNAMES = ["a", "b", "c", "num"]


class World:
    """Real objects + recording."""

    def __init__(self, specs, with_event=False, pnames=None, shared_c=False):
        self.pnames = list(pnames or PNAMES)
        ns = {"a": param.Parameter(default=0), "b": param.Parameter(default=0),
              "c": param.Parameter(default=0, per_instance=False) if shared_c else param.Parameter(default=0),
              "num": param.Number(default=1, bounds=(0, 10), doc="d0")}
        if with_event:
            ns["ev"] = param.Event()
        self.W = type("W", (param.Parameterized,), ns)
        self.W2 = type("W2", (self.W,), {})         # inherits every Parameter; class-level sets through it copy them
        self.o1 = self.W()
        self.o2 = self.W()
        self.targets = [self.o1, self.o2, self.W]
        self.trace = []
        self.specs = specs
        self.handles = [None] * len(specs)
        # one value object per script entry, created once: the reference model replays the same objects
        self.script_vals = {wid: [pool_value(v) for _n, v in sp["script"]] for wid, sp in enumerate(specs)}
        self.faults = {}     # wid -> set of invocation numbers (1-based) at which the callback raises
        self.calls = {}      # wid -> invocation count
        self.cbs = {}
        self.unwatched_in_cb = {}
        for wid in range(len(specs)):
            self.register(wid)

    def snapshot(self, tidx):
        t = self.targets[tidx]
        return tuple(getattr(t, n) for n in NAMES)

    def make_cb(self, wid):
        spec = self.specs[wid]
        tidx = spec["target"]

        def body(evs, kw):
            self.calls[wid] = self.calls.get(wid, 0) + 1
            if kw is not None:
                rec = [(n, None, v, None) for n, v in kw.items()]
            else:
                rec = [(e.name, e.old, e.new, e.type) for e in evs]
            self.trace.append(("enter", wid, rec, self.snapshot(tidx)))
            if self.calls[wid] in self.faults.get(wid, ()):
                if spec.get("fault_after_script"):
                    # the callback does its work first and fails afterwards
                    for k, (n, _v) in enumerate(spec["script"]):
                        self.assign(tidx, NAMES[n], self.script_vals[wid][k], scripted=wid)
                self.trace.append(("raise", wid))
                raise FAULT_CLASSES[spec.get("fault_exc", "Fault")](f"watcher {wid} invocation {self.calls[wid]}")
            uw = spec.get("unwatch_on_call")
            if uw is not None and not self.unwatched_in_cb.get(wid) and uw < len(self.specs) and self.handles[uw] is not None \
                    and self.specs[uw].get("dup_of") is None and not any(sp.get("dup_of") == uw for sp in self.specs):
                # the callback removes a watcher (possibly itself) while the event is being dispatched
                self.unwatched_in_cb[wid] = True
                self.trace.append(("unwatch", wid, uw))
                self.unregister(uw)
            for k, (n, _v) in enumerate(spec["script"]):
                self.assign(tidx, NAMES[n], self.script_vals[wid][k], scripted=wid)
            self.trace.append(("exit", wid))
            if spec.get("raise_skip"):
                raise param.Skip        # documented way for a callback to say "nothing to do": must not disturb anyone else

        if spec["mode"] == "kwargs":
            def cb(**kw):
                body(None, kw)
        else:
            def cb(*evs):
                body(evs, None)
        return cb

    def register(self, wid):
        spec = self.specs[wid]
        t = self.W2 if spec.get("via_subclass") else self.targets[spec["target"]]
        reg = t.param.watch_values if spec["mode"] == "kwargs" else t.param.watch
        if spec.get("dup_of") is not None:
            cb = self.cbs[spec["dup_of"]]       # the very same callback registered a second time
        else:
            cb = self.cbs.setdefault(wid, self.make_cb(wid))
        self.handles[wid] = reg(
            cb, [self.pnames[n] for n in spec["names"]], what=spec["what"],
            onlychanged=spec["onlychanged"], queued=spec["queued"], precedence=spec["precedence"])

    def unregister(self, wid):
        t = self.W2 if self.specs[wid].get("via_subclass") else self.targets[self.specs[wid]["target"]]
        t.param.unwatch(self.handles[wid])
        self.handles[wid] = None

    def assign(self, tidx, name, value, scripted=None):
        self.trace.append(("assign", tidx, name, value, scripted))
        setattr(self.targets[tidx], name, value)


class Fault(Exception):
    pass


class FaultValueError(Fault, ValueError):
    """a callback's failure that happens to be a ValueError (what param itself raises for a rejected value)"""


class FaultTypeError(Fault, TypeError):
    pass


class FaultKeyError(Fault, KeyError):
    pass


class FaultInterrupt(BaseException):
    """a failure that is not an Exception (the kind KeyboardInterrupt and SystemExit are)"""


FAULTS = (Fault, FaultInterrupt)
FAULT_CLASSES = {"Fault": Fault, "ValueError": FaultValueError, "TypeError": FaultTypeError, "KeyError": FaultKeyError,
                 "BaseException": FaultInterrupt}
