"""Runner: tiers, seeding, sharding, evidence, known findings, VIOLATION lines, exit codes.

A check module (checks/cXX_*.py) exposes

    ID, LEVEL, RULE, ASSUMPTIONS            metadata
    SIZES = {"quick": n, "thorough": n}     Hypothesis examples per shard
    strategy(tier)                          Hypothesis strategy producing a JSON-serialisable *case*
    execute(case) -> vlib.core.Result       interprets the case against param and against the oracle
    enumerate_cases(tier)  (optional)       finite sub-space enumerated completely (iterable of cases)
    REGIONS = {name: fn(case, violation)}   (optional) predicates naming known-finding regions

Exit codes: 0 held / 1 violation (with VIOLATION line) / 2 harness error.
"""
import argparse
import hashlib
import importlib
import json
import os
import subprocess
import sys
import time
import traceback

HOME = os.environ.get("VERIF_HOME") or os.path.dirname(os.path.dirname(os.path.abspath(__file__)))
REPO = os.path.realpath(os.environ.get("VERIF_REPO", "/repo"))
NSHARDS = int(os.environ.get("VERIF_SHARDS", "16"))

CHECKS = {
    "C01": "checks.c01_constraints",
    "C02": "checks.c02_rejected_noeffect",
    "C03": "checks.c03_dispatch",
    "C04": "checks.c04_batching",
    "C05": "checks.c05_faults",
    "C06": "checks.c06_depends",
    "C07": "checks.c07_subobject",
    "C08": "checks.c08_refs",
    "C09": "checks.c09_rx",
    "C10": "checks.c10_async",
    "C11": "checks.c11_inheritance",
    "C12": "checks.c12_leaks",
    "C13": "checks.c13_namespace",
    "C14": "checks.c14_constant",
    "C15": "checks.c15_json_roundtrip",
    "C16": "checks.c16_schema",
    "C17": "checks.c17_copy_pickle",
    "C18": "checks.c18_selector",
    "C19": "checks.c19_time",
    "C20": "checks.c20_pprint",
}


class HarnessError(Exception):
    pass


def case_hash(case):
    return hashlib.sha1(json.dumps(case, sort_keys=True, default=str).encode()).hexdigest()[:16]


def _check_imports():
    import param
    import numbergen
    for m in (param, numbergen):
        f = os.path.realpath(m.__file__)
        if not f.startswith(REPO + os.sep):
            raise HarnessError(f"{m.__name__} imported from {f}, not from {REPO}")


def _innermost_in_repo(exc):
    tb = exc.__traceback__
    last = None
    while tb is not None:
        last = tb
        tb = tb.tb_next
    if last is None:
        return False
    f = os.path.realpath(last.tb_frame.f_code.co_filename)
    return f.startswith(REPO + os.sep)


def run_case(mod, case):
    """Execute one case. Returns Result. An exception escaping execute() whose innermost
    frame lies in the repository is reported as an 'unexpected' violation (param raised where
    the generated, documented-valid operation should have succeeded); any other escaping
    exception is a harness error."""
    from vlib.core import Result, Violation
    import warnings
    _reset_globals()
    try:
        with warnings.catch_warnings():
            warnings.simplefilter("ignore")
            res = mod.execute(case)
    except HarnessError:
        raise
    except Exception as e:  # noqa: BLE001
        if _innermost_in_repo(e):
            res = Result()
            res.violations.append(Violation(
                f"{mod.ID}.unexpected_exception.{type(e).__name__}",
                "".join(traceback.format_exception(type(e), e, e.__traceback__)[-6:])))
            return res
        raise HarnessError("exception inside the harness while executing a case:\n" +
                           "".join(traceback.format_exception(type(e), e, e.__traceback__))) from e
    finally:
        _reset_globals()
    return res


_LOGGER_SET = False


def _reset_globals():
    global _LOGGER_SET
    import logging
    import param
    from param import parameterized as pz
    param.Dynamic.time_dependent = False
    try:
        param.Dynamic.time_fn(0)
    except Exception:
        pass
    pz.warnings_as_exceptions = False
    if not _LOGGER_SET:
        logging.getLogger("param").setLevel(logging.CRITICAL)
        try:
            pz.get_logger().setLevel(logging.CRITICAL)
        except Exception:
            pass
        _LOGGER_SET = True


class Stats:
    def __init__(self):
        self.evaluations = 0
        self.nontrivial = set()
        self.labels = {}
        self.samples = []
        self.dontcare = 0
        self.excluded_known = {}
        self.exhaustive_points = 0
        self.failures = []   # list of dict(clause, detail, case)
        self.timed_out = False

    def add(self, case, res, max_samples=4):
        self.evaluations += 1
        self.dontcare += res.dontcare
        for l in res.labels:
            self.labels[l] = self.labels.get(l, 0) + 1
        if res.nontrivial:
            h = case_hash(case)
            if h not in self.nontrivial:
                self.nontrivial.add(h)
                if len(self.samples) < max_samples:
                    self.samples.append(case)

    def to_json(self):
        return {
            "evaluations": self.evaluations,
            "nontrivial": sorted(self.nontrivial),
            "labels": self.labels,
            "samples": self.samples,
            "dontcare": self.dontcare,
            "excluded_known": self.excluded_known,
            "exhaustive_points": self.exhaustive_points,
            "failures": self.failures,
            "timed_out": self.timed_out,
        }

    def merge_json(self, d):
        self.evaluations += d["evaluations"]
        self.nontrivial.update(d["nontrivial"])
        for k, v in d["labels"].items():
            self.labels[k] = self.labels.get(k, 0) + v
        for s in d["samples"]:
            if len(self.samples) < 6:
                self.samples.append(s)
        self.dontcare += d["dontcare"]
        for k, v in d["excluded_known"].items():
            self.excluded_known[k] = self.excluded_known.get(k, 0) + v
        self.exhaustive_points += d["exhaustive_points"]
        self.failures.extend(d["failures"])
        self.timed_out = self.timed_out or d["timed_out"]


def load_known(pid):
    path = os.path.join(HOME, "known_findings.json")
    if not os.path.exists(path):
        return []
    with open(path) as f:
        data = json.load(f)
    return [e for e in data.get("findings", []) if e.get("property") == pid]


def split_violations(mod, case, res, open_known, stats):
    """Drop violations that fall inside the region of an open known finding (counted)."""
    regions = getattr(mod, "REGIONS", {})
    out = []
    for v in res.violations:
        hit = None
        for e in open_known:
            fn = regions.get(e.get("region"))
            if fn is not None:
                try:
                    if fn(case, v):
                        hit = e["id"]
                        break
                except Exception as ex:  # noqa: BLE001
                    raise HarnessError(f"region predicate {e.get('region')} raised: {ex!r}")
        if hit:
            stats.excluded_known[hit] = stats.excluded_known.get(hit, 0) + 1
        else:
            out.append(v)
    return out


def search(mod, tier, seed, stats, open_known, budget_s, n_examples, ignore_clauses):
    """One seeded Hypothesis search. Returns the (shrunk) failure dict or None."""
    import hypothesis
    from hypothesis import HealthCheck, Phase, given, settings

    strat = mod.strategy(tier)
    t0 = time.time()
    state = {"last_fail": None, "shrinking_since": None}

    def body(case):
        now = time.time()
        if state["last_fail"] is None and now - t0 > budget_s:
            stats.timed_out = True
            return
        if state["shrinking_since"] is not None and now - state["shrinking_since"] > 120:
            return  # stop shrinking: let every further candidate pass
        res = run_case(mod, case)
        if state["last_fail"] is None:
            stats.add(case, res)
        vs = [v for v in split_violations(mod, case, res, open_known, stats)
              if v.clause not in ignore_clauses]
        if vs:
            if state["shrinking_since"] is None:
                state["shrinking_since"] = now
                target = vs[0].clause
                state["target"] = target
            # keep shrinking on the same clause so the replay stays about one root cause
            same = [v for v in vs if v.clause == state["target"]]
            if not same:
                return
            state["last_fail"] = {"clause": same[0].clause, "detail": same[0].detail, "case": case}
            raise AssertionError(same[0].clause)

    test = given(strat)(body)
    test = settings(
        max_examples=n_examples, database=None, deadline=None, derandomize=False,
        report_multiple_bugs=False, suppress_health_check=list(HealthCheck),
        phases=(Phase.generate, Phase.shrink), print_blob=False,
    )(test)
    test = hypothesis.seed(seed)(test)
    try:
        test()
    except HarnessError:
        raise
    except BaseException as e:  # noqa: BLE001
        if state["last_fail"] is not None:
            return state["last_fail"]
        if isinstance(e, (KeyboardInterrupt, SystemExit)):
            raise
        raise HarnessError("hypothesis failed without a recorded violation:\n" +
                           "".join(traceback.format_exception(type(e), e, e.__traceback__))) from e
    return state["last_fail"]


def run_shard(mod, tier, seed, shard, nshards, budget_s):
    stats = Stats()
    known = load_known(mod.ID)
    open_known = [e for e in known if e.get("status") == "open"]
    # 1. finite sub-space, enumerated completely (shard takes every nshards-th point)
    enum = getattr(mod, "enumerate_cases", None)
    if enum is not None:
        seen_clauses = set()
        for i, case in enumerate(enum(tier)):
            if i % nshards != shard:
                continue
            res = run_case(mod, case)
            stats.add(case, res)
            stats.exhaustive_points += 1
            for v in split_violations(mod, case, res, open_known, stats):
                if v.clause not in seen_clauses:
                    seen_clauses.add(v.clause)
                    stats.failures.append({"clause": v.clause, "detail": v.detail, "case": case})
    # 2. generated search, collect-then-shrink with clause exclusion
    n = mod.SIZES[tier]
    ignore = set(f["clause"] for f in stats.failures)
    for _round in range(6):
        f = search(mod, tier, seed, stats, open_known, budget_s, n, ignore)
        if f is None:
            break
        stats.failures.append(f)
        ignore.add(f["clause"])
    return stats


def replay_file(mod, path):
    with open(path) as f:
        data = json.load(f)
    case = data["case"] if isinstance(data, dict) and "case" in data else data
    res = run_case(mod, case)
    return data, case, res


def write_violation(pid, failure):
    d = os.path.join(HOME, "out", "violations", pid)
    os.makedirs(d, exist_ok=True)
    h = case_hash(failure["case"])
    name = failure["clause"].replace("/", "_").replace(" ", "_")[:80]
    p = os.path.join(d, f"{name}-{h}.json")
    with open(p, "w") as f:
        json.dump({"property": pid, "clause": failure["clause"], "detail": failure["detail"],
                   "case": failure["case"]}, f, indent=1, default=str)
    return os.path.relpath(p, HOME)


def main(argv=None):
    ap = argparse.ArgumentParser()
    ap.add_argument("pid")
    ap.add_argument("--tier", default=os.environ.get("VERIF_TIER", "quick"), choices=["quick", "thorough"])
    ap.add_argument("--replay")
    ap.add_argument("--shard", type=int, default=None)
    ap.add_argument("--shard-out")
    ap.add_argument("--examples", type=int, default=None)
    args = ap.parse_args(argv)
    pid = args.pid.upper()
    if pid not in CHECKS:
        print(f"unknown property {pid}", file=sys.stderr)
        return 2
    try:
        seed = int(os.environ.get("VERIF_SEED", "1") or "1")
    except ValueError:
        seed = 1
    t0 = time.time()
    try:
        if not os.path.isdir(os.path.join(HOME, ".deps")) and pid == "C16":
            subprocess.run(["bash", os.path.join(HOME, "setup.sh")], check=True, stdout=subprocess.DEVNULL)
        _check_imports()
        mod = importlib.import_module(CHECKS[pid])
        if args.examples:
            mod.SIZES = dict(mod.SIZES, **{args.tier: args.examples})

        # ---- replay mode -------------------------------------------------
        if args.replay:
            data, case, res = replay_file(mod, args.replay)
            if res.violations:
                for v in res.violations:
                    print(f"  clause={v.clause}\n    {v.detail}")
                print(f"VIOLATION property={pid} replay={args.replay}")
                return 1
            print(f"replay {args.replay}: property held")
            return 0

        # ---- worker mode (one shard of the thorough tier) -----------------
        if args.shard is not None:
            budget = float(os.environ.get("VERIF_BUDGET_S", "2400"))
            stats = run_shard(mod, args.tier, seed * 1000 + args.shard, args.shard, NSHARDS, budget)
            with open(args.shard_out, "w") as f:
                json.dump(stats.to_json(), f, default=str)
            return 0

        known = load_known(pid)
        open_known = [e for e in known if e.get("status") == "open"]
        violations = []   # (clause, detail, replay_path)
        known_lines = []

        # ---- known findings and regression corpus -------------------------
        rdir = os.path.join(HOME, "replays", pid)
        kf_replays = {}
        for e in known:
            if e.get("replay"):
                kf_replays[os.path.normpath(os.path.join(HOME, e["replay"]))] = e
        replayed = 0
        files = sorted(os.listdir(rdir)) if os.path.isdir(rdir) else []
        stats = Stats()
        for fn in files:
            if not fn.endswith(".json"):
                continue
            path = os.path.join(rdir, fn)
            data, case, res = replay_file(mod, path)
            replayed += 1
            e = kf_replays.get(os.path.normpath(path))
            rel = os.path.relpath(path, HOME)
            if e is not None and e.get("status") == "open":
                hit = [v for v in res.violations if v.clause == e.get("clause")]
                if hit:
                    known_lines.append(f"KNOWN-FINDING: property={pid} {e['id']} {e['what']}")
                else:
                    print(f"note: known finding {e['id']} no longer reproduces from {rel}")
                rest = [v for v in split_violations(mod, case, res, open_known, stats)
                        if v.clause != e.get("clause")]
            else:
                rest = split_violations(mod, case, res, open_known, stats)
            for v in rest:
                violations.append((v.clause, v.detail, rel))

        # ---- search --------------------------------------------------------
        if args.tier == "quick":
            budget = float(os.environ.get("VERIF_BUDGET_S", "600"))
            st = run_shard(mod, "quick", seed, 0, 1, budget)
            stats.merge_json(st.to_json())
            nsh = 1
        else:
            budget = float(os.environ.get("VERIF_BUDGET_S", "2400"))
            sdir = os.path.join(HOME, "out", "shards", pid)
            os.makedirs(sdir, exist_ok=True)
            procs = []
            for i in range(NSHARDS):
                out = os.path.join(sdir, f"shard{i}.json")
                if os.path.exists(out):
                    os.remove(out)
                cmd = [sys.executable, "-W", "ignore", "-m", "vlib.runner", pid, "--tier", "thorough",
                       "--shard", str(i), "--shard-out", out]
                if args.examples:
                    cmd += ["--examples", str(args.examples)]
                procs.append((i, out, subprocess.Popen(cmd, cwd=HOME)))
            bad = []
            for i, out, p in procs:
                rc = p.wait()
                if rc != 0 or not os.path.exists(out):
                    bad.append((i, rc))
                    continue
                with open(out) as f:
                    stats.merge_json(json.load(f))
                os.remove(out)
            if bad:
                raise HarnessError(f"shards failed: {bad}")
            nsh = NSHARDS

        seen = set()
        for f in stats.failures:
            if f["clause"] in seen:
                continue
            seen.add(f["clause"])
            violations.append((f["clause"], f["detail"], write_violation(pid, f)))

        # ---- evidence ------------------------------------------------------
        wall = time.time() - t0
        cov = {
            "evaluations": stats.evaluations,
            "distinct_nontrivial": len(stats.nontrivial),
            "rule": mod.RULE,
            "samples": stats.samples[:4],
            "classes": dict(sorted(stats.labels.items())),
            "dont_care": stats.dontcare,
            "excluded_known": stats.excluded_known,
            "exhaustive_points": stats.exhaustive_points,
            "replayed_corpus": replayed,
            "shards": nsh,
            "budget_exhausted": stats.timed_out,
            "known_findings_reproduced": len(known_lines),
        }
        if hasattr(mod, "EXHAUSTIVE_NOTE") and stats.exhaustive_points:
            # only the named finite sub-space is enumerated completely; the rest of the domain is sampled
            cov["exhaustive"] = False
            cov["exhaustive_subspace"] = {"points": stats.exhaustive_points, "what": mod.EXHAUSTIVE_NOTE,
                                          "complete": True}
        ev = {
            "property_id": pid, "tier": args.tier, "seed": seed, "level": mod.LEVEL,
            "coverage": cov, "assumptions": list(mod.ASSUMPTIONS), "wall_s": round(wall, 2),
            "violations": len(violations),
        }
        os.makedirs(os.path.join(HOME, "evidence"), exist_ok=True)
        with open(os.path.join(HOME, "evidence", f"{pid}.json"), "w") as f:
            json.dump(ev, f, indent=1, default=str)

        for line in known_lines:
            print(line)
        print(f"{pid} tier={args.tier} seed={seed} evaluations={stats.evaluations} "
              f"distinct_nontrivial={len(stats.nontrivial)} exhaustive_points={stats.exhaustive_points} "
              f"excluded_known={sum(stats.excluded_known.values())} dont_care={stats.dontcare} "
              f"corpus={replayed} wall={wall:.1f}s" + (" (budget exhausted: inconclusive beyond the counts shown)"
                                                      if stats.timed_out else ""))
        if violations:
            for clause, detail, path in violations:
                print(f"  clause={clause}\n    {str(detail)[:1500]}")
                print(f"VIOLATION property={pid} replay={path}")
            return 1
        return 0
    except HarnessError as e:
        print(f"HARNESS ERROR ({pid}): {e}", file=sys.stderr)
        return 2
    except Exception as e:  # noqa: BLE001
        print(f"HARNESS ERROR ({pid}): " + "".join(traceback.format_exception(type(e), e, e.__traceback__)),
              file=sys.stderr)
        return 2


if __name__ == "__main__":
    sys.exit(main())
