"""Generators shared by C15 (JSON round trip) and C16 (schema validation): a random Parameterized class
built from JSON-serializable Parameter types with random constraint configurations, and a *valid*
state for it, built by construction (never by rejection) from the declared constraints."""
import datetime as dt
import math

from hypothesis import strategies as st

import param

# ---------------------------------------------------------------------------
# encodings (JSON-able):  value = vlib.core enc format; a parameter spec is
#   {"t": type name, "cfg": {...}, "default": encoded valid value, "value": encoded valid value}

_text = st.one_of(
    st.text(alphabet=st.sampled_from(list("ab\"\\/\n\t é€\ud800 0")), max_size=5),
    st.text(alphabet=st.sampled_from(list("ab\"\\/\n\t é€\ud800 0")), max_size=5),
    st.text(alphabet=st.sampled_from(list("ab\"\\/\n\t é€\ud800 0")), max_size=5),
    # strings that spell a JSON / Python literal are ordinary strings
    st.sampled_from(["null", "true", "false", "NaN", "None", "Infinity", "[]", "{}", "1", "1.0", "\"a\""]),
)
_fin = st.one_of(
    st.integers(-10, 10), st.sampled_from([2 ** 53 + 1, -2 ** 70, 10 ** 25]),
    st.floats(allow_nan=False, allow_infinity=False),
    st.sampled_from([-0.0, 0.0, 1.0, 3.0, 1e308, -1e308, 5e-324, 0.1, 1 / 3, 2.5]),
)
_leaf = st.one_of(st.none(), st.booleans(), st.integers(-5, 5), _fin, _text)
_json = st.recursive(_leaf, lambda ch: st.one_of(st.lists(ch, max_size=3),
                                                st.dictionaries(_text, ch, max_size=3)), max_leaves=5)


def _bounds(draw, integer):
    shape = draw(st.sampled_from(["none", "lo", "hi", "both", "both"]))
    if shape == "none":
        return None, None
    lo = draw(st.integers(-6, 4)) if integer else draw(st.sampled_from([-6, -2.5, 0, 0.0, 1, 1.5, 4]))
    if integer and draw(st.integers(0, 3)) == 0:
        lo = lo + 0.5                      # an Integer may be declared with fractional limits
    width = draw(st.integers(3, 8)) if integer else draw(st.sampled_from([3, 4.5, 8]))
    hi = lo + width
    b = (lo if shape in ("lo", "both") else None, hi if shape in ("hi", "both") else None)
    inc = (draw(st.booleans()), draw(st.booleans()))
    return b, inc


def _in_bounds_value(draw, b, inc, integer):
    """A value inside the hard bounds, often exactly on an inclusive side or next to an exclusive one."""
    if b is None:
        return draw(st.integers(-50, 50)) if integer else draw(_fin)
    lo, hi = b
    inc_lo, inc_hi = inc
    if integer:
        def first_at_or_above(b, inclusive):
            return int(b) if (b == int(b) and inclusive) else math.floor(b) + 1

        def last_at_or_below(b, inclusive):
            return int(b) if (b == int(b) and inclusive) else math.ceil(b) - 1
        a = first_at_or_above(lo, inc_lo) if lo is not None else last_at_or_below(hi, inc_hi) - 40
        z = last_at_or_below(hi, inc_hi) if hi is not None else first_at_or_above(lo, inc_lo) + 40
        return draw(st.one_of(st.integers(a, z), st.sampled_from([a, z])))
    cands = []
    if lo is not None:
        cands.append(lo if inc_lo else math.nextafter(float(lo), math.inf))
    if hi is not None:
        cands.append(hi if inc_hi else math.nextafter(float(hi), -math.inf))
    a = lo if lo is not None else hi - 40
    z = hi if hi is not None else lo + 40
    mid = draw(st.floats(0.01, 0.99))
    cands += [a + (z - a) * mid, int(a + (z - a) / 2) if a + 1 < z else a + (z - a) / 2]
    v = draw(st.sampled_from(cands))
    # keep it honest: the constructed value must satisfy the stated bounds
    ok = (lo is None or (v >= lo if inc_lo else v > lo)) and (hi is None or (v <= hi if inc_hi else v < hi))
    return v if ok else a + (z - a) * 0.5


def _dtime(draw):
    return draw(st.datetimes(min_value=dt.datetime(1, 1, 1), max_value=dt.datetime(9999, 12, 31, 23, 59, 59)))


def _date(draw):
    return draw(st.dates(min_value=dt.date(1, 1, 1), max_value=dt.date(9999, 12, 31)))


import re as _re   # noqa: E402

# name -> (pattern, flags, values that match it (String uses re.match))
_REGEXES = {
    "ab_text": ("^[ab]*$", None, ["", "a", "abba", "b"]),
    "prefix_text": ("a.", None, ["ab", "a b", "a\"c"]),
    "icase_compiled": (r"[a-z]+\d*$", _re.IGNORECASE, ["ABC", "abc", "Ab12", "z"]),
    "dotall_compiled": (r"a.b$", _re.DOTALL, ["a\nb", "axb"]),
    "verbose_compiled": (r"a  b  # two letters", _re.VERBOSE, ["ab", "abc"]),
}


def regex_of(key):
    pat, flags, _vals = _REGEXES[key]
    return pat if flags is None else _re.compile(pat, flags)


TYPES = ["Integer", "Number", "String", "Boolean", "Tuple", "NumericTuple", "XYCoordinates", "Range", "Date",
         "CalendarDate", "DateRange", "CalendarDateRange", "List", "Dict", "Selector", "ListSelector", "Color",
         "ClassSelector"]


@st.composite
def param_spec(draw, types=TYPES, for_schema=False):
    """Returns (type name, cfg kwargs as python objects, two valid python values)."""
    t = draw(st.sampled_from(types))
    cfg = {}
    allow_none = draw(st.sampled_from([None, None, True, False]))
    if allow_none is not None:
        cfg["allow_None"] = allow_none

    def value():
        if t in ("Integer", "Number"):
            v = _in_bounds_value(draw, cfg.get("bounds"), cfg.get("inclusive_bounds", (True, True)), t == "Integer")
            if draw(st.integers(0, 7)) == 0:
                # a bool is a number too (and is accepted as one): it must come back as the bool it was
                b_ = draw(st.booleans())
                lo_, hi_ = cfg.get("bounds") or (None, None)
                il_, ih_ = cfg.get("inclusive_bounds", (True, True))
                if (lo_ is None or (b_ >= lo_ if il_ else b_ > lo_)) and (hi_ is None or (b_ <= hi_ if ih_ else b_ < hi_)):
                    return b_
            return v
        if t == "String":
            if cfg.get("regex") is not None:
                return draw(st.sampled_from(_REGEXES[cfg["regex"]][2]))
            return draw(_text)
        if t == "Boolean":
            return draw(st.booleans())
        if t == "Tuple":
            return tuple(draw(st.lists(_leaf if not for_schema else _leaf, min_size=cfg["length"], max_size=cfg["length"])))
        if t in ("NumericTuple", "XYCoordinates"):
            n = 2 if t == "XYCoordinates" else cfg["length"]
            return tuple(draw(st.lists(st.one_of(_fin, _fin, _fin, st.booleans()), min_size=n, max_size=n)))
        if t == "Range":
            a = _in_bounds_value(draw, cfg.get("bounds"), cfg.get("inclusive_bounds", (True, True)), False)
            b = _in_bounds_value(draw, cfg.get("bounds"), cfg.get("inclusive_bounds", (True, True)), False)
            return (a, b)
        if t == "Date":
            return _dtime(draw)
        if t == "CalendarDate":
            return _date(draw)
        if t == "DateRange":
            if draw(st.booleans()):
                a, b = sorted([_dtime(draw), _dtime(draw)])
            else:
                a, b = sorted([_date(draw), _date(draw)])
            return (a, b)
        if t == "CalendarDateRange":
            a, b = sorted([_date(draw), _date(draw)])
            return (a, b)
        if t == "List":
            lo, hi = cfg.get("bounds", (0, 3))
            it = cfg.get("item_type")
            elem = {None: _json, int: st.integers(-5, 5), str: _text, float: st.floats(allow_nan=False, allow_infinity=False),
                    (int, str): st.one_of(st.integers(-5, 5), _text), bool: st.booleans(),
                    list: st.lists(st.integers(0, 3), max_size=2)}[it]
            return draw(st.lists(elem, min_size=lo or 0, max_size=hi if hi is not None else 3))
        if t == "Dict":
            return draw(st.dictionaries(_text, _json, max_size=3))
        if t == "Selector":
            return draw(st.sampled_from(cfg["objects"] + cfg.get("objects_appended", [])))
        if t == "ListSelector":
            return draw(st.lists(st.sampled_from(cfg["objects"] + cfg.get("objects_appended", [])), max_size=3))
        if t == "Color":
            return draw(st.sampled_from(["#fff", "#00ff7f", "abcdef", "#ABC", "000"]))
        if t == "ClassSelector":
            c = cfg["class_"]
            pool = {int: st.integers(-5, 5), str: _text, float: st.floats(allow_nan=False, allow_infinity=False),
                    bool: st.booleans(), list: st.lists(st.integers(0, 3), max_size=2),
                    tuple: st.lists(st.integers(0, 3), max_size=2).map(tuple), dict: st.dictionaries(_text, st.integers(0, 3), max_size=2)}
            return draw(st.one_of(*[pool[x] for x in (c if isinstance(c, tuple) else (c,))]))
        raise KeyError(t)

    if t in ("Integer", "Number", "Range"):
        b, inc = _bounds(draw, t == "Integer")
        if b is not None:
            cfg["bounds"] = b
            cfg["inclusive_bounds"] = inc
        if draw(st.integers(0, 2)) == 0:
            # soft bounds are GUI hints only: tighter than the hard bounds, or present where no hard bound is
            lo, hi = b if b is not None else (None, None)
            cfg["softbounds"] = ((lo + 1) if lo is not None else -1, (hi - 1) if hi is not None else 1)
        if t != "Range" and draw(st.integers(0, 3)) == 0:
            # so is the step: values need not be multiples of it
            cfg["step"] = draw(st.sampled_from([2, 3, 7] if t == "Integer" else [2, 3, 0.25, 7]))
    elif t == "String" and draw(st.integers(0, 2)) == 0:
        cfg["regex"] = draw(st.sampled_from(sorted(_REGEXES)))        # a key of _REGEXES (text or compiled with flags)
    elif t in ("Tuple", "NumericTuple"):
        cfg["length"] = draw(st.integers(0 if t == "Tuple" else 1, 3))
    elif t == "List":
        if draw(st.booleans()):
            a = draw(st.integers(0, 2))
            cfg["bounds"] = (a, draw(st.integers(a, 3)))
        it = draw(st.sampled_from([None, None, int, str, float, (int, str)] + ([bool, list] if for_schema else [])))
        if it is not None:
            cfg["item_type"] = it
    elif t in ("Selector", "ListSelector"):
        cfg["objects"] = draw(st.sampled_from([[1, 2, 3], ["a", "b"], [1, "a", 2.5], [0.5, 1.5], [None, 1], ["x"], [1, 2.0],
                                               ["null", "a"], [72, 300]]))
        if draw(st.integers(0, 2)) == 0:
            cfg["objects_style"] = "dict"      # declared as {label: object}
        if draw(st.integers(0, 2)) == 0:
            # objects that joined the list after the declaration (they have no label in a dict declaration)
            first = cfg["objects"][0]
            cfg["objects_appended"] = [draw(st.sampled_from(["zz", "q"] if isinstance(first, str) else [150, 7.5]))]
    elif t == "ClassSelector":
        cfg["class_"] = draw(st.sampled_from([int, str, float, (int, str), bool, list, tuple, dict, (bool, str)]))
    if t in ("Selector", "ListSelector") and for_schema and draw(st.integers(0, 5)) == 0:
        cfg["objects"] = []          # no allowed objects declared (check_on_set is then False)
        return (t, cfg, None, None)
    v1 = value()
    v2 = value()
    if cfg.get("allow_None") and draw(st.integers(0, 3)) == 0:
        v2 = None
    if t in ("Selector", "ListSelector") and for_schema and draw(st.integers(0, 4)) == 0:
        # a selector declared without a default: the state of a freshly built object is None
        v1 = None
        if draw(st.booleans()):
            v2 = None
    return (t, cfg, v1, v2)


def build_class(specs, name="K", extra_ns=None):
    """specs: list of (type, cfg, default, value) -> Parameterized class with parameters p0..pn."""
    ns = {}
    for i, (t, cfg, d, _v) in enumerate(specs):
        kw = dict(cfg)
        if t in ("Tuple", "NumericTuple") and "length" in kw and d is not None and len(d) == 0:
            pass
        appended = kw.pop("objects_appended", [])
        if "regex" in kw and t == "String":
            kw["regex"] = regex_of(kw["regex"])
        if kw.pop("objects_style", None) == "dict":
            kw["objects"] = {f"label{j}": o for j, o in enumerate(kw["objects"])}
        # the default is installed after the appended objects exist (it may be one of them)
        in_decl = d is None or not appended or not any(d is a or d == a for a in appended + [[a] for a in appended])
        if isinstance(d, list) and appended and any(x in appended for x in d):
            in_decl = False
        ns[f"p{i}"] = (getattr(param, t)(default=d, **kw) if in_decl else getattr(param, t)(**kw), appended, d, in_decl)
    K = type(name, (param.Parameterized,), dict({n: v[0] for n, v in ns.items()}, **(extra_ns or {})))
    for n, (_p, appended, d, in_decl) in ns.items():
        for a in appended:
            K.param[n].objects.append(a)
        if not in_decl:
            setattr(K, n, d)
    return K


# ---------------------------------------------------------------------------
# JSON-able encoding of a spec (cases must be data)

from vlib.core import dec as _dec, enc as _enc   # noqa: E402

_TN = {int: "int", str: "str", float: "float", bool: "bool", list: "list", tuple: "tuple", dict: "dict"}
_NT = {v: k for k, v in _TN.items()}


def _enc_type(t):
    return [_TN[x] for x in t] if isinstance(t, tuple) else _TN[t]


def _dec_type(t):
    return tuple(_NT[x] for x in t) if isinstance(t, list) else _NT[t]


def enc_spec(spec):
    t, cfg, d, v = spec
    c = {}
    for k, x in cfg.items():
        if k in ("bounds", "softbounds"):
            c[k] = [None if y is None else _enc(y) for y in x]
        elif k == "inclusive_bounds":
            c[k] = list(x)
        elif k in ("item_type", "class_"):
            c[k] = _enc_type(x)
        elif k in ("objects", "objects_appended"):
            c[k] = [_enc(o) for o in x]
        else:
            c[k] = x
    return [t, c, _enc(d), _enc(v)]


def dec_spec(e):
    t, c, d, v = e
    cfg = {}
    for k, x in c.items():
        if k in ("bounds", "softbounds"):
            cfg[k] = tuple(None if y is None else _dec(y) for y in x)
        elif k == "inclusive_bounds":
            cfg[k] = tuple(x)
        elif k in ("item_type", "class_"):
            cfg[k] = _dec_type(x)
        elif k in ("objects", "objects_appended"):
            cfg[k] = [_dec(o) for o in x]
        else:
            cfg[k] = x
    return (t, cfg, _dec(d), _dec(v))
