"""Importable Parameterized classes (needed for pickle round trips in C17 and for `import` lines /
eval namespaces in C20).  Nothing here carries state between cases except class-level defaults,
which the checks never modify."""
import param


# ---------------------------------------------------------------------------
# C20: literal-valued classes with default and custom constructor signatures

class Sub(param.Parameterized):
    x = param.Number(default=0)
    label = param.String(default="")
    anyv = param.Parameter(default=None)
    opt = param.Number(default=4, allow_None=True)        # None is a value different from the default


class Plain(param.Parameterized):
    num = param.Number(default=1.5)
    i = param.Integer(default=2)
    s = param.String(default="d")
    b = param.Boolean(default=False)
    lst = param.List(default=[])
    tup = param.Parameter(default=(1, 2))
    dct = param.Dict(default={})
    anyv = param.Parameter(default=None)
    sub = param.ClassSelector(class_=Sub, default=None)
    subs = param.List(default=[], item_type=Sub)
    prec = param.Number(default=0, precedence=2)
    optn = param.Number(default=3, allow_None=True)
    opts = param.String(default="x", allow_None=True)
    cfgd = param.Dict(default={"fmt": "png", "dpi": 72})         # a non-empty dict default
    cfgl = param.List(default=[{"k": 1}, 2])                     # ... and one nested in a list


class Pos(param.Parameterized):
    """positional parameter + keyword whose default differs from the Parameter default + **params"""
    num = param.Number(default=1.5, allow_None=True)
    s = param.String(default="pdefault", allow_None=True)
    i = param.Integer(default=2)
    anyv = param.Parameter(default=None)

    def __init__(self, num, s="kwdefault", **params):
        super().__init__(num=num, s=s, **params)


class PosNoKw(param.Parameterized):
    """positional + keyword, no **params: only these two can be given to the constructor"""
    num = param.Number(default=1.5)
    i = param.Integer(default=2)

    def __init__(self, num, i=7):
        super().__init__(num=num, i=i)


class TwoPos(param.Parameterized):
    anyv = param.Parameter(default=None)
    s = param.String(default="d")
    i = param.Integer(default=2)

    def __init__(self, anyv, s, i=2, **params):
        super().__init__(anyv=anyv, s=s, i=i, **params)


class KwOnly(param.Parameterized):
    """a positional argument and a keyword-only one (whose default is the default of the Parameter) + **params"""
    s = param.String(default="d")
    num = param.Number(default=1.0)
    i = param.Integer(default=2)

    def __init__(self, s, *, num=1.0, **params):
        super().__init__(s=s, num=num, **params)


class KwOnly2(param.Parameterized):
    """only keyword-only arguments besides **params"""
    s = param.String(default="d")
    num = param.Number(default=1.0)

    def __init__(self, *, num=1.0, **params):
        super().__init__(num=num, **params)


C20_CLASSES = {"Plain": Plain, "Pos": Pos, "PosNoKw": PosNoKw, "TwoPos": TwoPos, "Sub": Sub, "KwOnly": KwOnly, "KwOnly2": KwOnly2}


# ---------------------------------------------------------------------------
# C17: copy / pickle

class CSub(param.Parameterized):
    x = param.Number(default=0)
    y = param.Number(default=0)


class Par(param.Parameterized):
    a = param.Number(default=1, bounds=(0, 100))
    l = param.List(default=[1])
    d = param.Dict(default={"k": 1})
    s = param.Selector(objects=[1, 2, 3])
    sd = param.Selector(objects={"one": 1, "two": 2}, check_on_set=False)      # dict-declared, may gain unlabelled objects
    sub = param.ClassSelector(class_=CSub, default=None)
    free = param.Parameter(default=None)

    def __init__(self, **params):
        super().__init__(**params)
        self.log = []
        self.extra = {"n": 0}
        self._lock = ["not part of the state"]

    # the usual way to customise the state: take the superclass's, drop what must not travel, put it back on arrival
    def __getstate__(self):
        state = super().__getstate__()
        state.pop("_lock", None)
        return state

    def __setstate__(self, state):
        super().__setstate__(state)
        self._lock = ["not part of the state"]

    def note(self, tag, *events):
        self.log.append(("note", tag, self.a))

    @param.depends("a", watch=True)
    def on_a(self):
        self.log.append(("on_a", self.a))

    @param.depends("a", "free", watch=True)
    def on_a_free(self):
        self.log.append(("on_a_free", self.a, self.free))

    @param.depends("a:bounds", watch=True)
    def on_bounds(self):
        self.log.append(("on_bounds", self.param.a.bounds))

    @param.depends("sub.x", watch=True)
    def on_subx(self):
        self.log.append(("on_subx", self.sub.x if self.sub is not None else None))


class ParNoSubDep(param.Parameterized):
    """Like Par, but without a dependency on the attached sub-object's parameters."""
    a = param.Number(default=1, bounds=(0, 100))
    l = param.List(default=[1])
    d = param.Dict(default={"k": 1})
    s = param.Selector(objects=[1, 2, 3])
    sd = param.Selector(objects={"one": 1, "two": 2}, check_on_set=False)      # dict-declared, may gain unlabelled objects
    sub = param.ClassSelector(class_=CSub, default=None)
    free = param.Parameter(default=None)

    def __init__(self, **params):
        super().__init__(**params)
        self.log = []
        self.extra = {"n": 0}
        self._lock = ["not part of the state"]

    # the usual way to customise the state: take the superclass's, drop what must not travel, put it back on arrival
    def __getstate__(self):
        state = super().__getstate__()
        state.pop("_lock", None)
        return state

    def __setstate__(self, state):
        super().__setstate__(state)
        self._lock = ["not part of the state"]

    def note(self, tag, *events):
        self.log.append(("note", tag, self.a))

    @param.depends("a", watch=True)
    def on_a(self):
        self.log.append(("on_a", self.a))

    @param.depends("a", "free", watch=True)
    def on_a_free(self):
        self.log.append(("on_a_free", self.a, self.free))

    @param.depends("a:bounds", watch=True)
    def on_bounds(self):
        self.log.append(("on_bounds", self.param.a.bounds))


class ParSlots(ParNoSubDep):
    """a subclass that keeps an ordinary attribute in a slot of its own"""
    __slots__ = ["tag"]

    def __init__(self, **params):
        super().__init__(**params)
        self.tag = ["kept in a slot"]


def user_cb(*events):
    """module-level watcher callback (picklable)"""
    for e in events:
        getattr(e.obj, "log", []).append(("user_cb", e.name, e.new))
