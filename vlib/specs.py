"""The spec predicate shared by C01, C11, C15, C16: does value v satisfy the declared constraints of a
Parameter of type `ptype` with constraint configuration `cfg`?  Written from the class docstrings and
the user guide (Parameter_Types), NOT by calling the library's validators.

verdict(ptype, cfg, v) -> True (must be accepted) | False (must be rejected) | None (no claim)

cfg keys (all optional): bounds (lo, hi), inclusive (bool, bool), allow_None (bool), length (int),
regex (str), item_type (type or tuple), objects (list), check_on_set (bool), class_ (type or tuple),
is_instance (bool), list_bounds (min, max), allow_named (bool), step.
"""
import datetime as dt
import inspect
import numbers
import re


def _is_num(v):
    return isinstance(v, numbers.Number)


def _in_bounds(v, bounds, inclusive):
    """True / False; None when the comparison itself is undefined (then the library must raise)."""
    if bounds is None:
        return True
    lo, hi = bounds
    inc_lo, inc_hi = inclusive if inclusive is not None else (True, True)
    try:
        if hi is not None:
            ok = (v <= hi) if inc_hi else (v < hi)
            if not ok:
                return False
        if lo is not None:
            ok = (v >= lo) if inc_lo else (v > lo)
            if not ok:
                return False
    except TypeError:
        return False          # unorderable (e.g. complex): cannot be "within" the bounds
    return True


def _to_dt(v):
    if isinstance(v, dt.datetime):
        return v
    if isinstance(v, dt.date):
        return dt.datetime(v.year, v.month, v.day)
    return v


NAMED_COLORS = None


def verdict(ptype, cfg, v):
    allow_none = bool(cfg.get("allow_None"))
    bounds = cfg.get("bounds")
    inclusive = cfg.get("inclusive")
    if v is None:
        if ptype in ("Selector",):
            objs = cfg.get("objects", [])
            return allow_none or any(o is None for o in objs) or not cfg.get("check_on_set", bool(objs))
        if ptype == "ListSelector":
            return allow_none
        if ptype == "Parameter":
            return True
        return allow_none

    if ptype == "Parameter":
        return True

    if ptype in ("Number", "Magnitude"):
        if callable(v):
            if isinstance(v, type) or not hasattr(v, "__dict__"):
                return None      # documented: "the callable object must allow attributes to be set on itself"
            return not inspect.isgeneratorfunction(v)      # Dynamic: a callable generates the values
        if not _is_num(v):
            return False
        if ptype == "Magnitude" and bounds is None:
            bounds = (0.0, 1.0)
        return _in_bounds(v, bounds, inclusive)

    if ptype == "Integer":
        if callable(v):
            if isinstance(v, type) or not hasattr(v, "__dict__"):
                return None
            return None if inspect.isgeneratorfunction(v) else True
        if not isinstance(v, int):        # bool is an int in Python; the docs say "an Integer"
            return False
        return _in_bounds(v, bounds, inclusive)

    if ptype == "Boolean":
        return isinstance(v, bool)

    if ptype in ("String", "Bytes"):
        base = str if ptype == "String" else bytes
        if not isinstance(v, base):
            return False
        rx = cfg.get("regex")
        if rx is None:
            return True
        if ptype == "Bytes" and isinstance(rx, str):
            rx = rx.encode()
        return re.match(rx, v) is not None

    if ptype == "Date":
        if not isinstance(v, (dt.date, dt.datetime)):
            return False
        b = None if bounds is None else tuple(None if x is None else _to_dt(x) for x in bounds)
        return _in_bounds(_to_dt(v), b, inclusive)

    if ptype == "CalendarDate":
        if not isinstance(v, dt.date) or isinstance(v, dt.datetime):
            return False
        return _in_bounds(v, bounds, inclusive)

    if ptype in ("Tuple", "NumericTuple", "XYCoordinates", "Range", "DateRange", "CalendarDateRange"):
        if not isinstance(v, tuple):
            return False
        length = cfg.get("length")
        if ptype in ("XYCoordinates", "Range", "DateRange", "CalendarDateRange"):
            length = 2
        if length is not None and len(v) != length:
            return False
        if ptype == "Tuple":
            return True
        if ptype in ("NumericTuple", "XYCoordinates"):
            return all(_is_num(x) for x in v)
        if ptype == "Range":
            if not all(_is_num(x) for x in v):
                return False
            for x in v:
                if _in_bounds(x, bounds, inclusive) is False:
                    return False
            step = cfg.get("step")
            try:
                if step is not None and step > 0 and not v[0] <= v[1]:
                    return False
                if step is not None and step < 0 and not v[0] >= v[1]:
                    return False
            except TypeError:
                return False      # unorderable ends (complex): no valid order
            return True
        if ptype == "DateRange":
            if not all(isinstance(x, (dt.date, dt.datetime)) for x in v):
                return False
            if type(v[0]) is not type(v[1]):
                return None      # mixing date and datetime ends: not specified
            if not v[1] >= v[0]:
                return False
            if bounds is not None:
                for x in v:
                    try:
                        if _in_bounds(_to_dt(x), tuple(None if y is None else _to_dt(y) for y in bounds), inclusive) is False:
                            return False
                    except TypeError:
                        return None
            return True
        if ptype == "CalendarDateRange":
            if not all(isinstance(x, dt.date) for x in v):
                return False
            if any(isinstance(x, dt.datetime) for x in v):
                return None      # "date types": whether a datetime end is acceptable is not specified
            if not v[1] >= v[0]:
                return False
            if bounds is not None:
                for x in v:
                    if _in_bounds(x, bounds, inclusive) is False:
                        return False
            return True

    if ptype == "List":
        if not isinstance(v, list):
            return False
        lb = cfg.get("list_bounds")
        if lb is not None:
            lo, hi = lb
            if lo is not None and len(v) < lo:
                return False
            if hi is not None and len(v) > hi:
                return False
        it = cfg.get("item_type")
        if it is not None:
            return all(isinstance(x, it) for x in v)
        return True

    if ptype == "Dict":
        return isinstance(v, dict)

    if ptype == "Callable":
        return callable(v)

    if ptype == "Selector":
        objs = cfg.get("objects", [])
        if not cfg.get("check_on_set", bool(objs)):
            return None          # check_on_set=False: the value is added to the objects instead
        try:
            return v in objs
        except Exception:  # noqa: BLE001
            return None

    if ptype == "ListSelector":
        if not isinstance(v, list):
            return False
        objs = cfg.get("objects", [])
        if not cfg.get("check_on_set", bool(objs)):
            return None
        if allow_none and any(x is None for x in v):
            return None          # whether allow_None extends to the *elements* is not specified
        try:
            return all(x in objs for x in v)
        except Exception:  # noqa: BLE001
            return None

    if ptype == "ClassSelector":
        cls = cfg["class_"]
        if cfg.get("is_instance", True):
            return isinstance(v, cls)
        return isinstance(v, type) and issubclass(v, cls)

    if ptype == "Color":
        if not isinstance(v, str):
            return False
        if re.match(r"^#?(([0-9a-fA-F]{2}){3}|([0-9a-fA-F]){3})$", v):
            return True
        if cfg.get("allow_named", True):
            return None          # the list of named colors is the library's own table
        return False

    raise KeyError(ptype)
