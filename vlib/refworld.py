"""World shared by C08 (links mirror their reference) and C02 (a rejected assignment has no effect):
two source objects, one target with several allow_refs parameters, reference specs as data."""
from hypothesis import strategies as st

import param

SRC_NUM = ["v", "w"]
TGT_NUM = ["x", "y"]


class _Skip:
    def __repr__(self):
        return "<reference skipped>"


SKIP = _Skip()     # model value of a reference whose function raised param.Skip: the target keeps what it has


class _Err:
    def __repr__(self):
        return "<reference raises>"


ERR = _Err()       # model value of a reference whose evaluation raises (e.g. a division by a source that is 0 right now)


def _scaled(self):
    return self.v * 2


def _combo(self):
    return self.scaled() + self.w


def make_classes(boot=None):
    """boot: optional function(target) run by an on_init method of the target class (after the constructor's keywords
    are in place, as part of construction)"""
    def _boot(self):
        if boot is not None and not self.__dict__.get("_booted"):
            self.__dict__["_booted"] = True
            boot(self)

    S = type("S", (param.Parameterized,), {"v": param.Number(default=1), "w": param.Number(default=2),
                                           "s": param.String(default="s0"),
                                           # a dependent method that depends on another dependent method and a parameter
                                           "scaled": param.depends("v")(_scaled),
                                           "combo": param.depends("scaled", "w")(_combo)})
    T = type("T", (param.Parameterized,), {
        "x": param.Number(default=0, bounds=(-1000, 1000), allow_refs=True),
        "y": param.Number(default=0, bounds=(-1000, 1000), allow_refs=True),
        "t": param.String(default="", allow_refs=True),
        # one Parameter object for the class and all its instances (no per-instance copy)
        "z": param.Number(default=0, bounds=(-1000, 1000), allow_refs=True, per_instance=False),
        "_boot": param.depends("p", watch=True, on_init=True)(_boot),
        "lst": param.List(default=[], allow_refs=True, nested_refs=True),
        "d": param.Dict(default={}, allow_refs=True, nested_refs=True),
        "c": param.Number(default=5, bounds=(-1000, 1000), allow_refs=True, constant=True),
        "r": param.Number(default=6, readonly=True, allow_refs=True),
        "p": param.Integer(default=1, bounds=(0, 10)),
        "q": param.Integer(default=2, bounds=(0, 10)),
        # a parameter made of two others: assigning it assigns them
        "pq": param.Composite(attribs=["p", "q"]),
        # ... whose second component is a constant / a read-only parameter / a parameter that accepts references
        "pc": param.Composite(attribs=["p", "c"]),
        "pr": param.Composite(attribs=["p", "r"]),
        "px": param.Composite(attribs=["p", "x"]),
        # rejects with OSError (not ValueError / TypeError) when the folder does not exist
        "pth": param.Foldername(default=None),
        # validation of this one has an effect of its own (check_on_set=False adds the value to the objects)
        "sel": param.Selector(objects=[1, 2], check_on_set=False, constant=True),
    })
    return S, T


# ---------------------------------------------------------------------------
# reference specs (JSON-able)
#   ["p", si, pn]                 the Parameter object S_si.param.<pn>
#   ["bind", si, pn, k]           param.bind(lambda a: a * k, S_si.param.<pn>)
#   ["bind2", si, pi, sj, pj]     param.bind(lambda a, b: a + b, S_si.param.<pi>, S_sj.param.<pj>)
#   ["dep", si, pn]               @param.depends(S_si.param.<pn>) def f(a): return a + 1
#   ["rx", si, pi, sj, pj, k]     S_si.param.<pi>.rx() * k + S_sj.param.<pj>.rx()
#   ["nlist", [item...]]          list mixing references ["p", ...] and constants ["k", n]
#   ["ndict", [item...]]          dict {'k0': item0, ...}
#   ["str", si]                   S_si.param.s
#   ["meth", si]                  the bound method S_si.combo = depends('scaled', 'w'), scaled = depends('v')
#   ["skipbind", si, pn]          param.bind(f, S_si.param.<pn>) where f raises param.Skip for negative arguments
#   ["rxdiv", si, pi, sj, pj]     S_si.param.<pi>.rx() // S_sj.param.<pj>.rx()   (raises while the divisor is 0)

_si = st.integers(0, 1)
_pn = st.sampled_from(SRC_NUM)
_kk = st.integers(1, 3)
num_ref = st.one_of(
    st.tuples(st.just("p"), _si, _pn),
    st.tuples(st.just("p"), _si, _pn),
    st.tuples(st.just("bind"), _si, _pn, _kk),
    st.tuples(st.just("bind2"), _si, _pn, _si, _pn),
    st.tuples(st.just("dep"), _si, _pn),
    st.tuples(st.just("rx"), _si, _pn, _si, _pn, _kk),
    st.tuples(st.just("meth"), _si),
).map(list)
# a bound function that produces no value (raises Skip) while its argument is negative
skip_ref = st.tuples(st.just("skipbind"), _si, _pn).map(list)
# an rx expression that raises (ZeroDivisionError) while its second operand is 0
div_ref = st.tuples(st.just("rxdiv"), _si, _pn, _si, _pn).map(list)
_item = st.one_of(st.tuples(st.just("p"), _si, _pn), st.tuples(st.just("p"), _si, _pn), st.tuples(st.just("k"), st.integers(0, 9))).map(list)
list_ref = st.lists(_item, min_size=1, max_size=3).map(lambda v: ["nlist", v])
dict_ref = st.lists(_item, min_size=1, max_size=2).map(lambda v: ["ndict", v])
str_ref = st.tuples(st.just("str"), _si).map(list)


def ref_for(tname):
    if tname in ("x", "y", "z", "c", "r"):
        return num_ref
    if tname == "t":
        return str_ref
    if tname == "lst":
        return list_ref
    return dict_ref


def build_ref(spec, srcs):
    """Returns (reference object, model closure over the *model* source values dict {(si, pn): value},
    set of (si, pn) sources it depends on)."""
    k = spec[0]
    if k == "p":
        _, si, pn = spec
        return srcs[si].param[pn], (lambda mv: mv[(si, pn)]), {(si, pn)}
    if k == "str":
        si = spec[1]
        return srcs[si].param.s, (lambda mv: mv[(si, "s")]), {(si, "s")}
    if k == "bind":
        _, si, pn, kk = spec
        return param.bind(lambda a: a * kk, srcs[si].param[pn]), (lambda mv: mv[(si, pn)] * kk), {(si, pn)}
    if k == "bind2":
        _, si, pi, sj, pj = spec
        return (param.bind(lambda a, b: a + b, srcs[si].param[pi], srcs[sj].param[pj]),
                (lambda mv: mv[(si, pi)] + mv[(sj, pj)]), {(si, pi), (sj, pj)})
    if k == "dep":
        _, si, pn = spec

        @param.depends(srcs[si].param[pn])
        def f(a):
            return a + 1
        return f, (lambda mv: mv[(si, pn)] + 1), {(si, pn)}
    if k == "meth":
        si = spec[1]
        return srcs[si].combo, (lambda mv: mv[(si, "v")] * 2 + mv[(si, "w")]), {(si, "v"), (si, "w")}
    if k == "skipbind":
        _, si, pn = spec

        def parse(a):
            if a < 0:
                raise param.Skip
            return a + 0.5
        return (param.bind(parse, srcs[si].param[pn]), (lambda mv: SKIP if mv[(si, pn)] < 0 else mv[(si, pn)] + 0.5), {(si, pn)})
    if k == "rxdiv":
        _, si, pi, sj, pj = spec
        return (srcs[si].param[pi].rx() // srcs[sj].param[pj].rx(),
                (lambda mv: ERR if mv[(sj, pj)] == 0 else mv[(si, pi)] // mv[(sj, pj)]), {(si, pi), (sj, pj)})
    if k == "rx":
        _, si, pi, sj, pj, kk = spec
        return (srcs[si].param[pi].rx() * kk + srcs[sj].param[pj].rx(),
                (lambda mv: mv[(si, pi)] * kk + mv[(sj, pj)]), {(si, pi), (sj, pj)})
    if k in ("nlist", "ndict"):
        objs, fns, deps = [], [], set()
        for it in spec[1]:
            if it[0] == "k":
                n = it[1]
                objs.append(n)
                fns.append(lambda mv, n=n: n)
            else:
                o, f, d = build_ref(it, srcs)
                objs.append(o)
                fns.append(f)
                deps |= d
        if k == "nlist":
            return objs, (lambda mv: [f(mv) for f in fns]), deps
        return ({f"k{i}": o for i, o in enumerate(objs)}, (lambda mv: {f"k{i}": f(mv) for i, f in enumerate(fns)}), deps)
    raise ValueError(spec)


def sync_watchers_on(src, tgt):
    """Internal watchers installed on `src` on behalf of `tgt` (read-only inspection)."""
    out = []
    for pn, whats in src._param__private.watchers.items():
        for w in whats.get("value", []):
            owner = getattr(w.fn, "__self__", None)
            if getattr(w.fn, "__name__", "") == "_sync_refs" and getattr(owner, "self", None) is tgt:
                if not any(w is x for x in out):
                    out.append(w)
    return out
